//go:build verif

package main

import (
	"fmt"
	"strings"

	"github.com/bytedance/sonic/ast"
	"github.com/bytedance/sonic/internal/simrt"
)

// C16: documented reads on one shared concurrently-readable node, from the
// raw state, under the seeded scheduler. Oracle: every read equals the same
// read on a private clone executed sequentially; no race (race flavour); no
// deadlock; no panic.

func init() { workloads["C16"] = &workload{run: runC16} }

type c16Op struct {
	Path  []interface{}
	Nav   int // 0 GetByPath, 1 chained Get/Index, 2 IndexOrGet chain
	Acc   int
	Split int // GetByPath(path[:Split]) then GetByPath(path[Split:]) on the child
}

var c16AccNames = []string{"Int64", "Bool", "Float64", "String", "Number", "Interface", "Array", "Map", "Raw", "MarshalJSON", "InterfaceUseNumber", "ArrayUseNumber", "MapUseNumber", "Interface+Raw"}

func (o c16Op) String() string {
	return fmt.Sprintf("%s%s.%s", []string{"GetByPath", "Get/Index", "IndexOrGet"}[o.Nav], showPath(o.Path), c16AccNames[o.Acc])
}

func c16Nav(root *ast.Node, o c16Op) *ast.Node {
	n := root
	switch o.Nav {
	case 0:
		if o.Split > 0 && o.Split < len(o.Path) {
			n = n.GetByPath(o.Path[:o.Split]...)
			return n.GetByPath(o.Path[o.Split:]...)
		}
		return n.GetByPath(o.Path...)
	case 1:
		for _, p := range o.Path {
			switch x := p.(type) {
			case string:
				n = n.Get(x)
			case int:
				n = n.Index(x)
			}
		}
	default:
		for _, p := range o.Path {
			switch x := p.(type) {
			case string:
				n = n.IndexOrGet(1<<20, x)
			case int:
				n = n.IndexOrGet(x, "\x00nokey")
			}
		}
	}
	return n
}

func c16Apply(root *ast.Node, o c16Op) string {
	n := c16Nav(root, o)
	switch o.Acc {
	case 0:
		return show(n.Int64())
	case 1:
		return show(n.Bool())
	case 2:
		return show(n.Float64())
	case 3:
		return show(n.String())
	case 4:
		return show(n.Number())
	case 5:
		return show(n.Interface())
	case 6:
		return show(n.Array())
	case 7:
		return show(n.Map())
	case 8:
		r, err := n.Raw()
		return show(canonText(r), err)
	case 9:
		b, err := n.MarshalJSON()
		return show(canonText(string(b)), err)
	case 10:
		return show(n.InterfaceUseNumber())
	case 11:
		return show(n.ArrayUseNumber())
	case 12:
		return show(n.MapUseNumber())
	default:
		a := show(n.Interface())
		r, err := n.Raw()
		return a + "|" + show(canonText(r), err)
	}
}

// canonText: Raw/MarshalJSON of a still-raw node is the original text, of a
// parsed one the re-encoded text; both are right. Compare as JSON values with
// key order, not byte for byte (DESIGN Appendix A).
func canonText(s string) string {
	v, err := parseJV(s)
	if err != nil {
		// malformed text (returned verbatim for raw parts): blanks outside strings are as
		// insignificant as in valid JSON - a partly re-encoded text and the original are equal
		var sb strings.Builder
		inStr := false
		for i := 0; i < len(s); i++ {
			ch := s[i]
			if inStr {
				sb.WriteByte(ch)
				if ch == '\\' && i+1 < len(s) {
					i++
					sb.WriteByte(s[i])
				} else if ch == '"' {
					inStr = false
				}
				continue
			}
			if ch == ' ' || ch == '\t' || ch == '\n' || ch == '\r' {
				continue
			}
			if ch == '"' {
				inStr = true
			}
			sb.WriteByte(ch)
		}
		return "text:" + sb.String()
	}
	return "json:" + v.canon()
}

type c16Build struct {
	Mode     int
	Validate bool
	Copy     bool
	Sub      []interface{}
	Text     string
}

var c16ModeNames = []string{"Searcher{ConcurrentRead}.GetByPath()", "Searcher{ConcurrentRead}.GetByPath(sub)", "NewRawConcurrentRead", "NewRaw+Load", "NewRaw+LoadAll", "NewRawConcurrentRead.GetByPath(sub) child"}

// build constructs the shared node. It is a pure function of b.
func (b c16Build) build() (*ast.Node, error) {
	switch b.Mode {
	case 0, 1:
		s := ast.NewSearcher(b.Text)
		s.ConcurrentRead = true
		s.ValidateJSON = b.Validate
		s.CopyReturn = b.Copy
		var p []interface{}
		if b.Mode == 1 {
			p = b.Sub
		}
		n, err := s.GetByPath(p...)
		if err != nil {
			return nil, err
		}
		return &n, nil
	case 2:
		n := ast.NewRawConcurrentRead(b.Text)
		return &n, nil
	case 3:
		n := ast.NewRaw(b.Text)
		if err := n.Load(); err != nil {
			return &n, nil
		}
		return &n, nil
	case 4:
		n := ast.NewRaw(b.Text)
		if err := n.LoadAll(); err != nil {
			return &n, nil
		}
		return &n, nil
	default:
		n := ast.NewRawConcurrentRead(b.Text)
		c := n.GetByPath(b.Sub...)
		return c, nil
	}
}

func pathUnder(p, prefix []interface{}) bool {
	if len(p) < len(prefix) {
		return false
	}
	for i := range prefix {
		if p[i] != prefix[i] {
			return false
		}
	}
	return true
}

func runC16(c *Ctx) Result {
	t := c.T
	g := &gen{t: t, o: genOpts{MaxDepth: 4, MaxWidth: 5, Escapes: true, Spaces: true, BigObject: true}}
	text := g.Container()
	jv, err := parseJV(text)
	if err != nil {
		return Result{Sig: "", Detail: "generator produced invalid JSON: " + err.Error()}
	}
	var all [][]interface{}
	jv.paths(nil, &all)

	b := c16Build{Mode: t.Draw(simrt.Knobs, 6), Validate: t.Draw(simrt.Knobs, 2) == 0, Copy: t.Draw(simrt.Knobs, 3) == 0, Text: text}
	// sub path: a container child if any
	var conts [][]interface{}
	for _, p := range all {
		if len(p) > 0 {
			v := jv
			ok := true
			for _, e := range p {
				switch x := e.(type) {
				case string:
					v = v.get(x)
				case int:
					v = v.Arr[x]
				}
				if v == nil {
					ok = false
					break
				}
			}
			if ok && (v.K == 'a' || v.K == 'o') {
				conts = append(conts, p)
			}
		}
	}
	if b.Mode == 1 || b.Mode == 5 {
		if g.d(4) == 0 && len(all) > 1 {
			// the shared node itself is a raw SCALAR (string / number / literal member):
			// it is materialised in place by the first typed read
			b.Sub = all[1+g.d(len(all)-1)]
			c.inc("shared_node_is_any_member")
		} else if len(conts) == 0 {
			b.Mode = 0
		} else {
			b.Sub = conts[g.d(len(conts))]
		}
	} else if b.Mode == 2 && g.d(5) == 0 {
		// NewRawConcurrentRead on a scalar text
		b.Text = []string{`"hello, sonic"`, `true`, `null`, `12345`, `"esc\"aped\n"`, `-1.5e3`, `false`}[g.d(7)]
		text = b.Text
		jv, _ = parseJV(text)
		all = [][]interface{}{{}}
		conts = nil
		c.inc("shared_node_is_scalar_document")
	}
	// a share of runs: structurally invalid text behind a non-validating constructor
	invalid := false
	if t.Draw(simrt.Knobs, 5) == 0 && (b.Mode <= 2 || b.Mode == 5) {
		// corrupt one scalar inside the addressed subtree
		mut := corruptJSON(g, text)
		if mut != text {
			invalid = true
			b.Text = mut
			b.Validate = false
			c.inc("runs_invalid_text")
		}
	}
	// relative paths under the shared node
	var rel [][]interface{}
	for _, p := range all {
		if pathUnder(p, b.Sub) {
			rel = append(rel, p[len(b.Sub):])
		}
	}
	if len(rel) == 0 {
		rel = [][]interface{}{{}}
	}
	hot := rel[g.d(len(rel))]
	nClients := 2 + g.d(4)
	ops := make([][]c16Op, nClients)
	for i := range ops {
		n := 1 + g.d(8)
		for j := 0; j < n; j++ {
			var p []interface{}
			pick := g.d(10)
			if invalid && pick > 5 {
				pick = 0 // malformed text: keep the readers on the same few nodes (error publication)
			}
			switch pick {
			case 0, 1, 2, 3, 4: // hot path or a prefix / extension of it
				p = append(p, hot...)
				if len(p) > 0 && g.d(3) == 0 {
					p = p[:g.d(len(p)+1)]
				}
			case 5: // missing key / out of range / wrong kind
				p = append(p, rel[g.d(len(rel))]...)
				switch g.d(3) {
				case 0:
					p = append(p, "nokey")
				case 1:
					p = append(p, 99)
				default:
					if len(p) > 0 {
						if _, isS := p[len(p)-1].(string); isS {
							p[len(p)-1] = 0
						} else {
							p[len(p)-1] = "a"
						}
					}
				}
			default:
				p = append(p, rel[g.d(len(rel))]...)
			}
			op := c16Op{Path: p, Nav: g.d(3), Acc: g.d(len(c16AccNames))}
			if op.Nav == 0 && len(p) > 1 && g.d(3) == 0 {
				op.Split = 1 + g.d(len(p)-1)
			}
			ops[i] = append(ops[i], op)
		}
	}

	shared, berr := b.build()
	sample := map[string]interface{}{"doc": clip(b.Text, 160), "build": c16ModeNames[b.Mode], "sub": showPath(b.Sub), "validate": b.Validate, "clients": nClients}
	var opsS [][]string
	for _, l := range ops {
		var s []string
		for _, o := range l {
			s = append(s, o.String())
		}
		opsS = append(opsS, s)
	}
	sample["ops"] = opsS
	res := Result{Sample: sample}
	if berr != nil || shared == nil {
		// construction itself failed (validating searcher on invalid text): nothing shared to read
		c.inc("build_failed")
		return res
	}

	simrt.PoolTape = t
	defer func() { simrt.PoolTape = nil }()
	got := make([][]string, nClients)
	inv := make([][]uint64, nClients) // invoke / return stamps: the simulator's global event sequence
	ret := make([][]uint64, nClients)
	sim := simrt.NewSim(t, 400000)
	for i := 0; i < nClients; i++ {
		i := i
		got[i] = make([]string, len(ops[i]))
		inv[i] = make([]uint64, len(ops[i]))
		ret[i] = make([]uint64, len(ops[i]))
		sim.Go(func() {
			for j, o := range ops[i] {
				simrt.Yield(-100)
				inv[i][j] = simrt.NextSeq()
				got[i][j] = c16Apply(shared, o)
				ret[i][j] = simrt.NextSeq()
			}
		})
	}
	sim.Run()
	c.add("sched_steps", sim.Steps)
	c.add("sched_switches", sim.Switches)
	sample["steps"] = sim.Steps
	sample["switches"] = sim.Switches
	sample["strategy"] = sim.Strategy
	res.Nontrivial = sim.Switches > nClients
	if invalid {
		c.inc("fault_invalid_text_behind_nonvalidating_ctor")
	}
	fail := func(sig, detail string, fatal bool) Result {
		res.Sig = "C16:" + sig
		res.Detail = detail + fmt.Sprintf(" | doc=%q build=%s sub=%s clients=%d", clip(b.Text, 200), c16ModeNames[b.Mode], showPath(b.Sub), nClients)
		res.Fatal = fatal
		return res
	}
	if sim.Deadlock {
		c.inc("deadlocks")
		where := ""
		if invalid {
			where = ":invalid-json"
		}
		return fail("deadlock"+where, fmt.Sprintf("clients %v blocked for ever (all remaining clients wait on a lock nobody holds or will release)", sim.Blocked), true)
	}
	if sim.Livelock {
		// a cap of the harness (sonic's ast has no spinning: every wait is a lock, seen as a block),
		// counted, never reported; the process is recycled because aborted clients left locks behind
		c.inc("cap_step_budget_hit")
		res.Nontrivial = false
		res.Fatal = true
		res.Sig = ""
		return Result{Sample: sample, Fatal: true}
	}
	for i := 0; i < nClients; i++ {
		if p := sim.ClientPanic(i); p != nil {
			return fail("panic", fmt.Sprintf("client %d panicked: %v", i, clip(fmt.Sprint(p), 200)), true)
		}
	}
	if invalid {
		// Under the injected fault "malformed text behind a non-validating constructor" how far a
		// read gets before it meets the malformed byte depends on what was parsed before, already
		// in a single-threaded run: there is no order-independent answer. What the property
		// promises is still decidable: the recorded history must be LINEARIZABLE with respect to
		// the single-threaded implementation itself (a private clone built the same way, the
		// reads applied one after the other) - some order of the reads that respects each
		// client's program order and real time (an operation that returned before another was
		// invoked comes first) must explain every result.
		ok, explored := c16Linearizable(b, ops, got, inv, ret, 3000)
		c.add("linearization_nodes_explored", explored)
		if ok {
			c.inc("invalid_text_histories_linearizable")
			return res
		}
		// Not jointly linearizable (or search budget used up). The implementation turns a
		// malformed child into an error node in place, which later iterations skip like a
		// removed element: two overlapping conversions may both report the syntax error although
		// any sequential run reports it once. That is a property of the sequential behaviour
		// under malformed text, not a concurrency defect, so the deciding check is per read: every
		// answer must be one the single-threaded implementation can give for that read after
		// SOME sequential run of reads that were invoked before it returned.
		c.inc("invalid_text_histories_checked_per_read")
		seqAnswers := map[string]bool{} // every answer the single-threaded implementation gave while searching
		for i := range ops {
			for j, o := range ops[i] {
				ok, n := c16Explain(b, ops, got, inv, ret, i, j, 2000, seqAnswers)
				c.add("linearization_nodes_explored", n)
				if ok {
					c.inc("invalid_text_reads_explained")
					continue
				}
				if n >= 2000 {
					c.inc("cap_linearization_search_budget_hit") // inconclusive, never reported
					continue
				}
				var hs []string
				for ci := range ops {
					for cj, oo := range ops[ci] {
						hs = append(hs, fmt.Sprintf("c%d[%d..%d] %s = %s", ci, inv[ci][cj], ret[ci][cj], oo, clip(got[ci][cj], 80)))
					}
				}
				genuine := false
				if strings.HasPrefix(got[i][j], "ERR(Syntax error") {
					// (composite answers such as Interface+Raw carry the error as a part)
					for a := range seqAnswers {
						if strings.Contains(a, got[i][j]) {
							genuine = true
							break
						}
					}
				}
				if genuine {
					// the syntax error of a malformed child, genuine (the sequential implementation
					// reports the very same error through other reads), but surfaced through a read
					// that sequentially never surfaces it: the reader picked the child while it was
					// raw and found it turned into an error node when it got its lock (F21)
					return fail("read-has-no-sequential-explanation:invalid-json:child-syntax-error-surfaced-mid-transition", fmt.Sprintf("client %d read %d %s answered %s; sequentially this read never reports that error (it returns the raw text, or skips the error node) | history: %s", i, j, o, clip(got[i][j], 200), strings.Join(hs, " ; ")), false)
				}
				return fail("read-has-no-sequential-explanation:invalid-json:"+c16AccNames[o.Acc], fmt.Sprintf("client %d read %d %s answered %s; no single-threaded run of the reads invoked before it returned makes the implementation give that answer | history: %s", i, j, o, clip(got[i][j], 200), strings.Join(hs, " ; ")), false)
			}
		}
		return res
	}
	// sequential reference on a private clone built the same way
	clone, _ := b.build()
	for i := 0; i < nClients; i++ {
		for j, o := range ops[i] {
			want := c16Apply(clone, o)
			if got[i][j] != want {
				kind := "result-differs"
				if strings.HasPrefix(want, "ERR(") != strings.HasPrefix(got[i][j], "ERR(") {
					kind = "error-differs"
				}
				return fail(kind+":"+c16AccNames[o.Acc], fmt.Sprintf("client %d op %d %s: concurrent %s, sequential %s", i, j, o, clip(got[i][j], 160), clip(want, 160)), false)
			}
			c.inc("reads_checked")
		}
	}
	return res
}

// corruptJSON replaces one scalar token inside a container by garbage so that
// the text stays bracket-balanced (fast skipping does not notice) but parsing fails.
func corruptJSON(g *gen, text string) string {
	// candidates: positions of "true"/"false"/"null"/digits outside strings
	var cands []int
	inStr := false
	for i := 0; i < len(text); i++ {
		ch := text[i]
		if inStr {
			if ch == '\\' {
				i++
			} else if ch == '"' {
				inStr = false
			}
			continue
		}
		if ch == '"' {
			inStr = true
			continue
		}
		if ch == 't' || ch == 'f' || ch == 'n' || (ch >= '0' && ch <= '9') {
			if i > 0 && (text[i-1] == ':' || text[i-1] == ',' || text[i-1] == '[' || text[i-1] == ' ') {
				cands = append(cands, i)
			}
		}
	}
	if len(cands) == 0 {
		return text
	}
	i := cands[g.d(len(cands))]
	return text[:i] + "x" + text[i+1:]
}

// c16Linearizable searches a sequential order of the recorded reads that the single-threaded
// implementation (a fresh clone per candidate prefix) answers exactly as the concurrent run
// did. Depth-first, pruned at the first differing answer; budget = clone replays.
func c16Linearizable(b c16Build, ops [][]c16Op, got [][]string, inv, ret [][]uint64, budget int) (bool, int) {
	n := len(ops)
	pos := make([]int, n)
	type ref struct{ c, j int }
	var prefix []ref
	explored := 0
	total := 0
	for i := range ops {
		total += len(ops[i])
	}
	var dfs func() bool
	dfs = func() bool {
		if len(prefix) == total {
			return true
		}
		// the earliest return among the operations not yet placed: nothing invoked after it may come first
		minRet := ^uint64(0)
		for c := 0; c < n; c++ {
			if pos[c] < len(ops[c]) && ret[c][pos[c]] < minRet {
				minRet = ret[c][pos[c]]
			}
		}
		for c := 0; c < n; c++ {
			j := pos[c]
			if j >= len(ops[c]) || inv[c][j] > minRet {
				continue
			}
			if explored >= budget {
				return false
			}
			explored++
			clone, err := b.build()
			if err != nil || clone == nil {
				return false
			}
			for _, r := range prefix {
				c16Apply(clone, ops[r.c][r.j])
			}
			if c16Apply(clone, ops[c][j]) != got[c][j] {
				continue
			}
			prefix = append(prefix, ref{c, j})
			pos[c]++
			if dfs() {
				return true
			}
			pos[c]--
			prefix = prefix[:len(prefix)-1]
		}
		return false
	}
	ok := dfs()
	return ok, explored
}

// c16Explain decides the weaker, per-read form: is there a single-threaded run - the reads of
// x's own client before x, plus any reads of the other clients that were invoked before x
// returned, each client's reads in program order, interleaved in any way - after which read x
// answers what it answered in the concurrent run? (The answers of the other reads are not
// constrained: a conversion that meets a malformed child while another reader is turning that
// child into an error node has no single linearization point.)
func c16Explain(b c16Build, ops [][]c16Op, got [][]string, inv, ret [][]uint64, cx, jx int, budget int, seen map[string]bool) (bool, int) {
	n := len(ops)
	limit := make([]int, n) // how many reads of each client may precede x
	for c := 0; c < n; c++ {
		if c == cx {
			limit[c] = jx
			continue
		}
		for k := 0; k < len(ops[c]) && inv[c][k] < ret[cx][jx]; k++ {
			limit[c] = k + 1
		}
	}
	pos := make([]int, n)
	type ref struct{ c, j int }
	var prefix []ref
	explored := 0
	var dfs func() bool
	dfs = func() bool {
		if pos[cx] == jx {
			if explored >= budget {
				return false
			}
			explored++
			clone, err := b.build()
			if err != nil || clone == nil {
				return false
			}
			for _, r := range prefix {
				seen[c16Apply(clone, ops[r.c][r.j])] = true
			}
			a := c16Apply(clone, ops[cx][jx])
			seen[a] = true
			if a == got[cx][jx] {
				return true
			}
		}
		for c := 0; c < n; c++ {
			if pos[c] >= limit[c] {
				continue
			}
			prefix = append(prefix, ref{c, pos[c]})
			pos[c]++
			if dfs() {
				return true
			}
			pos[c]--
			prefix = prefix[:len(prefix)-1]
			if explored >= budget {
				return false
			}
		}
		return false
	}
	return dfs(), explored
}
