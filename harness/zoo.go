//go:build verif

package main

import (
	"errors"
	"encoding/json"
	"fmt"
	"reflect"
	"runtime"
	"strconv"
	"strings"
	"sync/atomic"

	"github.com/bytedance/sonic/internal/simrt"
)

// Type zoo shared by C08 / C09 / C10 / C06: fresh dynamic types (so that
// first-use compilation happens inside the simulated run) and callback types
// that yield to the scheduler / runtime-event injector in the middle of an
// encode or decode. Values stay inside the subset of Appendix B of DESIGN.md
// where encoding/json is a valid independent reference.

// ---- callback types

// cbHook is called from every callback with a site id; workloads point it at
// the scheduler yield (C08) or at the runtime-event injector (C10).
var cbHook = func(site int) {
	cbTraceCheck()
	simrt.Yield(int32(-200 - site))
}

// cbSentinel names the harness function every callback is (transitively)
// called from. A traceback taken inside a callback must reach it through the
// generated frames: if the runtime cannot resolve a generated PC the traceback
// stops early — exactly what makes the GC's stack scan throw "unknown caller
// pc". Deterministic stand-in for "a GC happened here".
var cbSentinel = ""
var cbTraceFail uint32
var cbTraceChecks int

func cbTraceCheck() {
	if cbSentinel == "" || !simrt.Active() {
		return
	}
	var pcs [512]uintptr
	n := runtime.Callers(1, pcs[:])
	fr := runtime.CallersFrames(pcs[:n])
	for {
		f, more := fr.Next()
		if strings.HasSuffix(f.Function, cbSentinel) {
			return
		}
		if !more {
			break
		}
	}
	atomic.StoreUint32(&cbTraceFail, 1)
}

// cbPanic, when it returns true, makes the callback panic (injected fault).
var cbPanic = func() bool { return false }

type cbPanicT struct{ msg string }

// cbFail, when it returns true, makes the callback return an error (injected fault: a user
// marshaler that fails - the error exits of the codecs run while other clients are inside).
var cbFail = func() bool { return false }

const cbFailMsg = "injected callback failure"

var errCbFail = errors.New(cbFailMsg)

type CbJSON struct {
	A int
	S string
}

func (c CbJSON) MarshalJSON() ([]byte, error) {
	cbHook(1)
	if cbPanic() {
		panic(cbPanicT{"injected panic in MarshalJSON"})
	}
	if cbFail() {
		return nil, errCbFail
	}
	b := []byte(`{"a":` + strconv.Itoa(c.A) + `,"s":` + strconv.Quote(c.S) + `}`)
	cbHook(2)
	return b, nil
}

func (c *CbJSON) UnmarshalJSON(b []byte) error {
	cbHook(3)
	if cbPanic() {
		panic(cbPanicT{"injected panic in UnmarshalJSON"})
	}
	if cbFail() {
		return errCbFail
	}
	var t struct {
		A int    `json:"a"`
		S string `json:"s"`
	}
	if err := json.Unmarshal(b, &t); err != nil {
		return err
	}
	cbHook(4)
	c.A, c.S = t.A, t.S
	cbHook(8) // after the last use of the receiver: only the caller's frame keeps *c alive now
	return nil
}

type CbText struct {
	K int
	V string
}

func (c CbText) MarshalText() ([]byte, error) {
	cbHook(5)
	if cbPanic() {
		panic(cbPanicT{"injected panic in MarshalText"})
	}
	if cbFail() {
		return nil, errCbFail
	}
	return []byte(strconv.Itoa(c.K) + ":" + c.V), nil
}

func (c *CbText) UnmarshalText(b []byte) error {
	s := string(b) // copy first: the input may be reused after we yield
	cbHook(6)
	if cbPanic() {
		panic(cbPanicT{"injected panic in UnmarshalText"})
	}
	if cbFail() {
		return errCbFail
	}
	i := strings.IndexByte(s, ':')
	if i < 0 {
		return fmt.Errorf("bad CbText %q", s)
	}
	k, err := strconv.Atoi(s[:i])
	if err != nil {
		return err
	}
	cbHook(7)
	c.K, c.V = k, s[i+1:]
	cbHook(9) // after the last use of the receiver: only the caller's frame keeps *c alive now
	return nil
}

// CbPtr has POINTER-receiver marshalers: whether they are called depends on
// the addressability of the value, which the encoder tracks through a
// per-program flag (encoding/json applies the same rule, so it stays a valid
// reference).
type CbPtr struct{ X int }

func (c *CbPtr) MarshalJSON() ([]byte, error) {
	cbHook(10)
	return []byte(`"PM` + strconv.Itoa(c.X) + `"`), nil
}

func (c *CbPtr) UnmarshalJSON(b []byte) error {
	cbHook(11)
	s := string(b)
	if strings.HasPrefix(s, `"PM`) {
		n, err := strconv.Atoi(strings.Trim(s[3:], `"`))
		c.X = n
		return err
	}
	var t struct{ X int }
	err := json.Unmarshal(b, &t)
	c.X = t.X
	return err
}

// CbBoth implements BOTH json.Marshaler and encoding.TextMarshaler (like time.Time): as a
// value its JSON form is used, as a map key its text form; which of the two a program calls
// is fixed when the program is compiled for that position.
type CbBoth struct{ N int }

func (c CbBoth) MarshalJSON() ([]byte, error) {
	return []byte(`{"both":` + strconv.Itoa(c.N) + `}`), nil
}

func (c *CbBoth) UnmarshalJSON(b []byte) error {
	var t struct {
		Both int `json:"both"`
	}
	err := json.Unmarshal(b, &t)
	c.N = t.Both
	return err
}

func (c CbBoth) MarshalText() ([]byte, error) { return []byte("both:" + strconv.Itoa(c.N)), nil }

func (c *CbBoth) UnmarshalText(b []byte) error {
	s := string(b)
	if !strings.HasPrefix(s, "both:") {
		return fmt.Errorf("bad CbBoth %q", s)
	}
	n, err := strconv.Atoi(s[5:])
	c.N = n
	return err
}

// static recursive type (exercises _OP_recurse and types above the inline depth)
type RecT struct {
	V    int               `json:"v"`
	Name string            `json:"name,omitempty"`
	Next *RecT             `json:"next"`
	Kids []RecT            `json:"kids,omitempty"`
	M    map[string]*RecT  `json:"m,omitempty"`
	Any  interface{}       `json:"any"`
	Cb   *CbJSON           `json:"cb,omitempty"`
	TK   map[CbText]int    `json:"tk,omitempty"`
}

var (
	tCbJSON = reflect.TypeOf(CbJSON{})
	tCbText = reflect.TypeOf(CbText{})
	tCbPtr  = reflect.TypeOf(CbPtr{})
	tCbBoth = reflect.TypeOf(CbBoth{})
	tRec    = reflect.TypeOf(RecT{})
	tNumber = reflect.TypeOf(json.Number(""))
	tRaw    = reflect.TypeOf(json.RawMessage(nil))
	tIface  = reflect.TypeOf((*interface{})(nil)).Elem()
)

var zooUniq int

var safeStrs = []string{"", "a", "hello", "wörld", `x"y`, `back\slash`, "<tag>&", "日本語", " ", "0123456789abcdef0123456789abcdef", "null", "😀", "k", "true"}
var safeFloats = []float64{0, 1, -1, 1.5, -2.25, 1000, 0.01, 3.14159, 100, 65535, 0.1, 2.5e-8, 1e21, 123456789, -0.5}

type zoo struct {
	g       *gen
	cb      bool // allow callback types
	maxDep  int
	wide    bool // allow structs with 47..54 fields
	omitzero bool // allow `omitzero` fields (encoding/json knows the option from go1.24 on: only where no reference is involved, or where a deviation shared with the event-free call is tolerated)
}

func (z *zoo) leaf() reflect.Type {
	switch z.g.d(10) {
	case 9:
		return reflect.TypeOf([]byte(nil))
	case 0:
		return reflect.TypeOf(int64(0))
	case 1:
		return reflect.TypeOf("")
	case 2:
		return reflect.TypeOf(false)
	case 3:
		return reflect.TypeOf(float64(0))
	case 4:
		return reflect.TypeOf(int8(0))
	case 5:
		return reflect.TypeOf(uint16(0))
	case 6:
		return tIface
	case 7:
		return tNumber
	default:
		return reflect.TypeOf(int(0))
	}
}

// Type generates a type; struct types are always fresh (unique field names).
func (z *zoo) Type(depth int) reflect.Type {
	if depth >= z.maxDep {
		return z.leaf()
	}
	switch z.g.d(16) {
	case 14:
		if z.cb {
			return tCbBoth
		}
		return z.leaf()
	case 15:
		if z.cb {
			return reflect.MapOf(tCbBoth, z.Type(depth+1))
		}
		return z.leaf()
	case 0, 1, 2:
		return z.Struct(depth)
	case 3:
		return reflect.SliceOf(z.Type(depth + 1))
	case 4:
		return reflect.MapOf(reflect.TypeOf(""), z.Type(depth+1))
	case 5:
		return reflect.PtrTo(z.Type(depth + 1))
	case 6:
		return reflect.ArrayOf(1+z.g.d(3), z.Type(depth+1))
	case 7:
		return reflect.MapOf(reflect.TypeOf(int(0)), z.Type(depth+1))
	case 8:
		if z.cb {
			return tCbJSON
		}
		return z.leaf()
	case 9:
		if z.cb {
			return reflect.MapOf(tCbText, z.Type(depth+1))
		}
		return z.leaf()
	case 10:
		if z.cb {
			return reflect.PtrTo(tCbJSON)
		}
		return z.leaf()
	case 11:
		return tRec
	case 12:
		if z.cb {
			return tCbPtr
		}
		return z.leaf()
	default:
		return z.leaf()
	}
}

func (z *zoo) Struct(depth int) reflect.Type {
	n := 1 + z.g.d(5)
	wide := false
	if z.wide && z.g.d(8) == 0 {
		// around the field count (50) at which every codec stops inlining a nested struct and
		// compiles it as a program of its own
		n, wide = 47+z.g.d(8), true
	}
	fs := make([]reflect.StructField, n)
	for i := range fs {
		zooUniq++
		name := "F" + strconv.Itoa(zooUniq)
		f := reflect.StructField{Name: name}
		if wide && i > 2 {
			f.Type = z.leaf()
		} else {
			f.Type = z.Type(depth + 1)
		}
		switch z.g.d(5) {
		case 0:
			f.Tag = reflect.StructTag(`json:"` + strings.ToLower(name) + `,omitempty"`)
		case 1:
			f.Tag = reflect.StructTag(`json:"n` + strconv.Itoa(i) + `"`)
		case 2:
			if z.omitzero {
				// evaluated by a call-out that gets the field's descriptor from the generated code
				f.Tag = reflect.StructTag(`json:"` + strings.ToLower(name) + `,omitzero"`)
			}
		}
		fs[i] = f
	}
	return reflect.StructOf(fs)
}

// Value fills a value of type t.
func (z *zoo) Value(t reflect.Type, depth int) reflect.Value {
	v := reflect.New(t).Elem()
	z.fill(v, depth)
	return v
}

func (z *zoo) fill(v reflect.Value, depth int) {
	g := z.g
	t := v.Type()
	switch t {
	case tCbJSON:
		v.Set(reflect.ValueOf(CbJSON{A: g.d(1000), S: safeStrs[g.d(len(safeStrs))]}))
		return
	case tCbText:
		v.Set(reflect.ValueOf(CbText{K: g.d(50), V: safeStrs[g.d(len(safeStrs))]}))
		return
	case tCbPtr:
		v.Set(reflect.ValueOf(CbPtr{X: g.d(1000)}))
		return
	case tCbBoth:
		v.Set(reflect.ValueOf(CbBoth{N: g.d(1000)}))
		return
	case tNumber:
		v.Set(reflect.ValueOf(json.Number(strconv.Itoa(g.d(100000) - 500))))
		return
	case tRaw:
		v.Set(reflect.ValueOf(json.RawMessage(`{"r":[1,2]}`)))
		return
	case tRec:
		v.Set(reflect.ValueOf(z.rec(depth)))
		return
	}
	switch t.Kind() {
	case reflect.Int, reflect.Int64:
		v.SetInt(int64(g.d(2000000) - 1000000))
	case reflect.Int8:
		v.SetInt(int64(g.d(256) - 128))
	case reflect.Uint16:
		v.SetUint(uint64(g.d(65536)))
	case reflect.String:
		if i := g.d(len(safeStrs) + 1); i < len(safeStrs) {
			v.SetString(safeStrs[i])
		} else {
			// invalid UTF-8: ConfigStd (ValidateString) repairs it into a second pooled buffer,
			// exactly as encoding/json writes U+FFFD
			v.SetString("inv\xff\xfealid\xc3")
		}
	case reflect.Bool:
		v.SetBool(g.d(2) == 0)
	case reflect.Float64:
		v.SetFloat(safeFloats[g.d(len(safeFloats))])
	case reflect.Interface:
		if iv := z.iface(depth); iv != nil {
			v.Set(reflect.ValueOf(iv))
		}
	case reflect.Ptr:
		if g.d(4) != 0 || depth > 4 {
			p := reflect.New(t.Elem())
			z.fill(p.Elem(), depth+1)
			v.Set(p)
		}
	case reflect.Slice:
		if t.Elem().Kind() == reflect.Uint8 {
			// []byte: base64 in JSON; lengths on both sides of the 3-byte groups
			if g.d(6) != 0 {
				b := make([]byte, g.d(26))
				for i := range b {
					b[i] = byte(g.d(256))
				}
				v.SetBytes(b)
			}
			return
		}
		if g.d(5) != 0 {
			n := g.d(4)
			if depth > 3 {
				n = g.d(2)
			}
			s := reflect.MakeSlice(t, n, n)
			for i := 0; i < n; i++ {
				z.fill(s.Index(i), depth+1)
			}
			v.Set(s)
		}
	case reflect.Array:
		for i := 0; i < t.Len(); i++ {
			z.fill(v.Index(i), depth+1)
		}
	case reflect.Map:
		if g.d(5) != 0 {
			n := g.d(4)
			if depth > 3 {
				n = g.d(2)
			}
			m := reflect.MakeMap(t)
			for i := 0; i < n; i++ {
				k := reflect.New(t.Key()).Elem()
				switch t.Key().Kind() {
				case reflect.String:
					k.SetString("k" + strconv.Itoa(g.d(6)))
				case reflect.Int:
					k.SetInt(int64(g.d(20) - 5))
				default:
					z.fill(k, depth+1)
				}
				e := reflect.New(t.Elem()).Elem()
				z.fill(e, depth+1)
				m.SetMapIndex(k, e)
			}
			v.Set(m)
		}
	case reflect.Struct:
		for i := 0; i < t.NumField(); i++ {
			z.fill(v.Field(i), depth+1)
		}
	}
}

func (z *zoo) iface(depth int) interface{} {
	g := z.g
	k := g.d(9)
	if depth > 4 && k >= 5 {
		k = 1
	}
	switch k {
	case 8:
		// a value with POINTER-receiver marshalers held in an interface: never addressable,
		// wherever the enclosing struct is reached from
		if z.cb {
			return CbPtr{X: g.d(100)}
		}
		return nil
	case 0:
		return nil
	case 1:
		return safeFloats[g.d(len(safeFloats))]
	case 2:
		return safeStrs[g.d(len(safeStrs))]
	case 3:
		return g.d(2) == 0
	case 4:
		return float64(g.d(1000))
	case 5:
		n := g.d(3)
		l := make([]interface{}, n)
		for i := range l {
			l[i] = z.iface(depth + 1)
		}
		return l
	default:
		n := g.d(3)
		m := map[string]interface{}{}
		for i := 0; i < n; i++ {
			m["i"+strconv.Itoa(g.d(5))] = z.iface(depth + 1)
		}
		return m
	}
}

func (z *zoo) rec(depth int) RecT {
	g := z.g
	r := RecT{V: g.d(100), Name: safeStrs[g.d(len(safeStrs))]}
	if depth < 3 && g.d(2) == 0 {
		n := z.rec(depth + 1)
		r.Next = &n
	}
	if depth < 2 && g.d(3) == 0 {
		r.Kids = []RecT{z.rec(depth + 2)}
	}
	if depth < 2 && g.d(4) == 0 {
		n := z.rec(depth + 2)
		r.M = map[string]*RecT{"x": &n, "nil": nil}
	}
	r.Any = z.iface(depth + 2)
	if z.cb && g.d(3) == 0 {
		r.Cb = &CbJSON{A: g.d(10), S: "cb"}
	}
	if z.cb && g.d(4) == 0 {
		r.TK = map[CbText]int{{K: g.d(5), V: "t"}: g.d(9)}
	}
	return r
}
