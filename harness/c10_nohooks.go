//go:build verif && !verifc10

package main

func c10Install(h func(dec bool, i, op, next int)) bool { return false }

func c10OpName(dec bool, op int) string { return "?" }
