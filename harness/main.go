//go:build verif

// Worker binary: executes simulated runs of one property's workload and
// prints one JSON line per event on stdout. Driven by /verif/orch.
package main

import (
	"bufio"
	"bytes"
	"encoding/json"
	"flag"
	"fmt"
	"os"
	"os/exec"
	"runtime/debug"
	"sort"
	"strconv"
	"strings"

	"github.com/bytedance/sonic/internal/simrt"
)

// Result of one simulated run.
type Result struct {
	Sig        string                 // violation signature ("" = property held)
	Detail     string                 // human-readable explanation
	Nontrivial bool                   // by the property's stated rule
	Sample     interface{}            // the case, written out
	Fatal      bool                   // process state is tainted; stop the batch
	Extra      map[string]interface{} // copied into the violation record
}

// Ctx is handed to a workload for one run.
type Ctx struct {
	T    *simrt.Tape
	Tier string
	Cfg  map[string]string
	Cnt  map[string]int // counters / probes, accumulated over the batch
	Run  int
	// IsRef: this process is a pristine reference; the workload rebuilds the run from
	// the tape, executes only operation RefOp, answers through refAnswer and exits
	IsRef   bool
	RefOp   int
	RefBase int
}

// refAnswer ends a pristine reference process with its result.
func refAnswer(s string) {
	out.Flush()
	fmt.Printf("REF %s\n", strconv.Quote(s))
	os.Exit(0)
}

// pristine runs operation op of the run described by the tape consumed so far in a fresh
// process of this same binary (same environment) and returns what it answered.
func pristine(c *Ctx, prop string, op, base int) (string, error) {
	exe, err := os.Executable()
	if err != nil {
		return "", err
	}
	rec := c.T.Recorded()
	tape, _ := json.Marshal(rec)
	cmd := exec.Command(exe, "-prop", prop, "-tier", c.Tier, "-refop", strconv.Itoa(op), "-refbase", strconv.Itoa(base))
	cmd.Stdin = bytes.NewReader(tape)
	outb, err := cmd.Output()
	if err != nil {
		return "", fmt.Errorf("%v: %s", err, clip(string(outb), 200))
	}
	for _, l := range strings.Split(string(outb), "\n") {
		if strings.HasPrefix(l, "REF ") {
			return strconv.Unquote(l[4:])
		}
	}
	return "", fmt.Errorf("no answer: %s", clip(string(outb), 200))
}

func (c *Ctx) inc(k string)        { c.Cnt[k]++ }
func (c *Ctx) add(k string, n int) { c.Cnt[k] += n }
func (c *Ctx) cfgInt(k string, def int) int {
	if v, ok := c.Cfg[k]; ok {
		n, err := strconv.Atoi(v)
		if err == nil {
			return n
		}
	}
	return def
}

type workload struct {
	run  func(*Ctx) Result
	init func(cfg map[string]string)
}

var workloads = map[string]*workload{}

// ReplayFile is what the orchestrator writes for a violation.
type ReplayFile struct {
	Property  string            `json:"property"`
	Workload  string            `json:"workload,omitempty"`
	Flavour   string            `json:"flavour"`
	Env       []string          `json:"env,omitempty"`
	Tier      string            `json:"tier"`
	Cfg       map[string]string `json:"cfg,omitempty"`
	BaseSeed  uint64            `json:"base_seed"`
	Run       int               `json:"run"`
	Prefix    []int             `json:"prefix_runs,omitempty"`
	Tape      [4][]uint32       `json:"tape"`
	TapeSeed  uint64            `json:"tape_seed"`
	Signature string            `json:"signature"`
	Detail    string            `json:"detail,omitempty"`
	Minimised bool              `json:"minimised"`
	Note      string            `json:"note,omitempty"`
}

type outLine struct {
	K       string                 `json:"k"`
	I       int                    `json:"i"`
	Seed    uint64                 `json:"seed,omitempty"`
	Sig     string                 `json:"sig,omitempty"`
	Detail  string                 `json:"detail,omitempty"`
	Tape    *[4][]uint32           `json:"tape,omitempty"`
	Hash    string                 `json:"hash,omitempty"`
	Fatal   bool                   `json:"fatal,omitempty"`
	Sample  interface{}            `json:"sample,omitempty"`
	Extra   map[string]interface{} `json:"extra,omitempty"`
	Runs    int                    `json:"runs,omitempty"`
	NT      int                    `json:"nt,omitempty"`
	Hashes  []string               `json:"hashes,omitempty"`
	Cnt     map[string]int         `json:"cnt,omitempty"`
	Samples []interface{}          `json:"samples,omitempty"`
	Draws   [4]int                 `json:"draws,omitempty"`
}

var out *bufio.Writer

func emit(l *outLine) {
	b, err := json.Marshal(l)
	if err != nil {
		b, _ = json.Marshal(&outLine{K: "err", Detail: "marshal: " + err.Error()})
	}
	out.Write(b)
	out.WriteByte('\n')
	out.Flush()
}

func runSeed(base uint64, prop string, i int) uint64 {
	h := base*0x9e3779b97f4a7c15 ^ uint64(i)*0xbf58476d1ce4e5b9
	for _, c := range []byte(prop) {
		h = (h ^ uint64(c)) * 1099511628211
	}
	return h
}

func parseCfg(s string) map[string]string {
	m := map[string]string{}
	for _, kv := range strings.Split(s, ",") {
		if kv == "" {
			continue
		}
		p := strings.SplitN(kv, "=", 2)
		if len(p) == 2 {
			m[p[0]] = p[1]
		} else {
			m[p[0]] = "1"
		}
	}
	return m
}

func main() {
	prop := flag.String("prop", "", "property id")
	base := flag.Uint64("seed", 1, "base seed")
	from := flag.Int("from", 0, "first run index")
	to := flag.Int("to", 1, "one past the last run index")
	tier := flag.String("tier", "quick", "tier")
	cfgs := flag.String("cfg", "", "k=v,k=v workload configuration")
	replay := flag.String("replay", "", "replay file")
	progress := flag.Bool("progress", false, "print a line before every run (crash attribution)")
	hashes := flag.Bool("hashes", false, "print the trace hash of every run (determinism self-test)")
	maxSamples := flag.Int("samples", 3, "samples to keep")
	refOp := flag.Int("refop", -1, "pristine-process reference: read a tape from stdin, rebuild the run it describes, execute only this operation and print its result")
	refBase := flag.Int("refbase", 0, "pristine-process reference: the parent's type-name counter at the start of the run")
	flag.Parse()
	out = bufio.NewWriterSize(os.Stdout, 1<<16)
	defer out.Flush()
	debug.SetTraceback("all")

	if *replay != "" {
		doReplay(*replay)
		return
	}
	w := workloads[*prop]
	if w == nil {
		fmt.Fprintf(os.Stderr, "unknown property %q\n", *prop)
		os.Exit(2)
	}
	cfg := parseCfg(*cfgs)
	if w.init != nil {
		w.init(cfg)
	}
	if os.Getenv("VERIF_SITEPROF") != "" {
		simrt.SiteProf = make([]int, 8192)
	}
	if *refOp >= 0 {
		var rec [4][]uint32
		if err := json.NewDecoder(os.Stdin).Decode(&rec); err != nil {
			fmt.Fprintln(os.Stderr, "refop: bad tape:", err)
			os.Exit(2)
		}
		c := &Ctx{T: simrt.NewReplay(0, rec), Tier: *tier, Cfg: cfg, Cnt: map[string]int{}, IsRef: true, RefOp: *refOp, RefBase: *refBase}
		simrt.ResetPools()
		w.run(c)
		fmt.Fprintln(os.Stderr, "refop: the workload did not answer")
		os.Exit(2)
	}
	cnt := map[string]int{}
	seen := map[uint64]struct{}{}
	var samples []interface{}
	nt := 0
	runs := 0
	var draws [4]int
	// partial summaries (deltas) every few hundred runs: a process that dies at a guard
	// page then loses little of what it covered
	flush := func(at int) {
		hs := make([]string, 0, len(seen))
		for h := range seen {
			hs = append(hs, strconv.FormatUint(h, 36))
		}
		sort.Strings(hs)
		emit(&outLine{K: "sum", I: at, Runs: runs, NT: nt, Hashes: hs, Cnt: cnt, Samples: samples, Draws: draws})
		for k := range cnt {
			delete(cnt, k)
		}
		for k := range seen {
			delete(seen, k)
		}
		samples, nt, runs, draws = nil, 0, 0, [4]int{}
	}
	for i := *from; i < *to; i++ {
		if runs >= 400 {
			flush(i)
		}
		seed := runSeed(*base, *prop, i)
		if *progress {
			emit(&outLine{K: "at", I: i, Seed: seed})
		}
		t := simrt.NewTape(seed)
		if tr := os.Getenv("VERIF_TRACE"); tr != "" && tr == strconv.Itoa(i) {
			t.Trace = true
			defer func() { os.WriteFile(os.Getenv("VERIF_TRACE_OUT"), t.Log, 0o644) }()
		}
		c := &Ctx{T: t, Tier: *tier, Cfg: cfg, Cnt: cnt, Run: i}
		simrt.ResetPools()
		r := w.run(c)
		runs++
		for s := 0; s < 4; s++ {
			draws[s] += t.NDraws[s]
		}
		if *hashes {
			emit(&outLine{K: "h", I: i, Hash: strconv.FormatUint(t.Hash, 16)})
		}
		if r.Nontrivial {
			nt++
			seen[t.Hash] = struct{}{}
			if len(samples) < *maxSamples && r.Sample != nil {
				samples = append(samples, r.Sample)
			}
		}
		if r.Sig != "" {
			rec := t.Recorded()
			emit(&outLine{K: "viol", I: i, Seed: seed, Sig: r.Sig, Detail: r.Detail, Tape: &rec,
				Fatal: r.Fatal, Sample: r.Sample, Extra: r.Extra, Hash: strconv.FormatUint(t.Hash, 16)})
			if r.Fatal {
				break
			}
		} else if r.Fatal {
			// process state tainted without a violation (harness cap): recycle the process
			emit(&outLine{K: "stop", I: i})
			break
		}
	}
	if simrt.SiteProf != nil {
		for i, n := range simrt.SiteProf {
			if n > 0 {
				fmt.Fprintf(os.Stderr, "siteprof %d %d\n", i-512, n)
			}
		}
	}
	flush(*to)
	emit(&outLine{K: "end", I: *to})
}

func doReplay(path string) {
	b, err := os.ReadFile(path)
	if err != nil {
		fmt.Fprintln(os.Stderr, err)
		os.Exit(2)
	}
	var rf ReplayFile
	if err := json.Unmarshal(b, &rf); err != nil {
		fmt.Fprintln(os.Stderr, err)
		os.Exit(2)
	}
	wname := rf.Property
	if rf.Workload != "" {
		wname = rf.Workload
	}
	w := workloads[wname]
	if w == nil {
		fmt.Fprintf(os.Stderr, "unknown workload %q\n", wname)
		os.Exit(2)
	}
	if w.init != nil {
		w.init(rf.Cfg)
	}
	cnt := map[string]int{}
	// prefix runs re-create the worker's process-global history
	for _, i := range rf.Prefix {
		t := simrt.NewTape(runSeed(rf.BaseSeed, wname, i))
		simrt.ResetPools()
		w.run(&Ctx{T: t, Tier: rf.Tier, Cfg: rf.Cfg, Cnt: cnt, Run: i})
	}
	emit(&outLine{K: "at", I: rf.Run})
	t := simrt.NewReplay(rf.TapeSeed, rf.Tape)
	simrt.ResetPools()
	r := w.run(&Ctx{T: t, Tier: rf.Tier, Cfg: rf.Cfg, Cnt: cnt, Run: rf.Run})
	rec := t.Recorded()
	emit(&outLine{K: "replayed", I: rf.Run, Sig: r.Sig, Detail: r.Detail, Tape: &rec, Sample: r.Sample,
		Hash: strconv.FormatUint(t.Hash, 16), Extra: r.Extra})
}
