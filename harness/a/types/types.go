// Package types (a): one of two packages both named `types`, whose exported
// type T prints as "types.T" in both (C09: distinct types that print identically).
package types

type T struct {
	A int
	B string
	C []int
}

type U struct {
	X *T
	L []T
}
