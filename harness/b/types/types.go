// Package types (b): see package a/types.
package types

type T struct {
	Z float64
	Y []string
	A map[string]int
}

type U struct {
	X *T
	M map[string]T
}
