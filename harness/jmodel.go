//go:build verif

package main

import (
	"bytes"
	"encoding/json"
	"fmt"
	"sort"
	"strconv"
	"strings"
)

// JV is an ordered JSON value tree (the reference representation used by the
// path generator of C16 and by the C15 model). Objects keep insertion order
// and may hold duplicate keys.
type JV struct {
	K   byte // 'n' null, 't' true, 'f' false, 's' string, '#' number, 'a' array, 'o' object
	S   string
	Arr []*JV
	Obj []JP
}

type JP struct {
	Key string
	Val *JV
}

func parseJV(text string) (*JV, error) {
	d := json.NewDecoder(strings.NewReader(text))
	d.UseNumber()
	v, err := parseJVTok(d)
	if err != nil {
		return nil, err
	}
	return v, nil
}

func parseJVTok(d *json.Decoder) (*JV, error) {
	tok, err := d.Token()
	if err != nil {
		return nil, err
	}
	switch t := tok.(type) {
	case nil:
		return &JV{K: 'n'}, nil
	case bool:
		if t {
			return &JV{K: 't'}, nil
		}
		return &JV{K: 'f'}, nil
	case string:
		return &JV{K: 's', S: t}, nil
	case json.Number:
		return &JV{K: '#', S: string(t)}, nil
	case json.Delim:
		if t == '[' {
			v := &JV{K: 'a'}
			for d.More() {
				e, err := parseJVTok(d)
				if err != nil {
					return nil, err
				}
				v.Arr = append(v.Arr, e)
			}
			_, err := d.Token()
			return v, err
		}
		if t == '{' {
			v := &JV{K: 'o'}
			for d.More() {
				kt, err := d.Token()
				if err != nil {
					return nil, err
				}
				e, err := parseJVTok(d)
				if err != nil {
					return nil, err
				}
				v.Obj = append(v.Obj, JP{kt.(string), e})
			}
			_, err := d.Token()
			return v, err
		}
	}
	return nil, fmt.Errorf("unexpected token %v", tok)
}

func (v *JV) clone() *JV {
	if v == nil {
		return nil
	}
	c := &JV{K: v.K, S: v.S}
	for _, e := range v.Arr {
		c.Arr = append(c.Arr, e.clone())
	}
	for _, p := range v.Obj {
		c.Obj = append(c.Obj, JP{p.Key, p.Val.clone()})
	}
	return c
}

func (v *JV) get(key string) *JV {
	for _, p := range v.Obj {
		if p.Key == key {
			return p.Val
		}
	}
	return nil
}

// text renders compact JSON preserving order.
func (v *JV) text() string {
	var sb bytes.Buffer
	v.write(&sb)
	return sb.String()
}

func (v *JV) write(sb *bytes.Buffer) {
	switch v.K {
	case 'n':
		sb.WriteString("null")
	case 't':
		sb.WriteString("true")
	case 'f':
		sb.WriteString("false")
	case 's':
		b, _ := json.Marshal(v.S)
		sb.Write(b)
	case '#':
		sb.WriteString(v.S)
	case 'a':
		sb.WriteByte('[')
		for i, e := range v.Arr {
			if i > 0 {
				sb.WriteByte(',')
			}
			e.write(sb)
		}
		sb.WriteByte(']')
	case 'o':
		sb.WriteByte('{')
		for i, p := range v.Obj {
			if i > 0 {
				sb.WriteByte(',')
			}
			b, _ := json.Marshal(p.Key)
			sb.Write(b)
			sb.WriteByte(':')
			p.Val.write(sb)
		}
		sb.WriteByte('}')
	}
}

// canon renders a canonical form for semantic comparison: numbers normalised
// through float64, order preserved.
func (v *JV) canon() string {
	var sb bytes.Buffer
	v.canonW(&sb)
	return sb.String()
}

func (v *JV) canonW(sb *bytes.Buffer) {
	switch v.K {
	case '#':
		f, err := strconv.ParseFloat(v.S, 64)
		if err != nil {
			sb.WriteString("#" + v.S)
		} else {
			sb.WriteString(strconv.FormatFloat(f, 'g', -1, 64))
		}
	case 'a':
		sb.WriteByte('[')
		for i, e := range v.Arr {
			if i > 0 {
				sb.WriteByte(',')
			}
			e.canonW(sb)
		}
		sb.WriteByte(']')
	case 'o':
		sb.WriteByte('{')
		for i, p := range v.Obj {
			if i > 0 {
				sb.WriteByte(',')
			}
			sb.WriteString(strconv.Quote(p.Key))
			sb.WriteByte(':')
			p.Val.canonW(sb)
		}
		sb.WriteByte('}')
	default:
		v.write(sb)
	}
}

// paths enumerates all paths (as []interface{} of string keys / int indexes)
// to every node, in document order. Duplicate keys: only the first is addressable.
func (v *JV) paths(prefix []interface{}, out *[][]interface{}) {
	*out = append(*out, append([]interface{}(nil), prefix...))
	switch v.K {
	case 'a':
		for i, e := range v.Arr {
			e.paths(append(prefix, i), out)
		}
	case 'o':
		seen := map[string]bool{}
		for _, p := range v.Obj {
			if seen[p.Key] {
				continue
			}
			seen[p.Key] = true
			p.Val.paths(append(prefix, p.Key), out)
		}
	}
}

func showPath(p []interface{}) string {
	var s []string
	for _, e := range p {
		s = append(s, fmt.Sprintf("%#v", e))
	}
	return "[" + strings.Join(s, ",") + "]"
}

// show renders any result of an ast accessor deterministically.
func show(v interface{}, err error) string {
	if err != nil {
		return "ERR(" + err.Error() + ")"
	}
	return showVal(v)
}

func showVal(v interface{}) string {
	switch x := v.(type) {
	case []byte:
		return "bytes:" + string(x)
	case map[string]interface{}:
		keys := make([]string, 0, len(x))
		for k := range x {
			keys = append(keys, k)
		}
		sort.Strings(keys)
		var sb strings.Builder
		sb.WriteString("map{")
		for _, k := range keys {
			sb.WriteString(strconv.Quote(k) + ":" + showVal(x[k]) + ",")
		}
		sb.WriteString("}")
		return sb.String()
	case []interface{}:
		var sb strings.Builder
		sb.WriteString("arr[")
		for _, e := range x {
			sb.WriteString(showVal(e) + ",")
		}
		sb.WriteString("]")
		return sb.String()
	default:
		return fmt.Sprintf("%T:%v", v, v)
	}
}
