//go:build verif

package main

import (
	"syscall"
	"unsafe"
)

// Arena: harness-owned memory whose last page is PROT_NONE. Inputs and caller
// buffers are placed so that they end exactly at (or k bytes before) the guard
// page: what follows an input / a buffer's capacity is decided by the
// simulator instead of by the allocator. Touching the guard page kills the
// worker (SIGSEGV), which the orchestrator reports as a violation.
type arena struct {
	mem   []byte // usable part (without the guard page)
	all   []byte
	pages int
}

const pageSize = 4096

func newArena(pages int) *arena {
	all, err := syscall.Mmap(-1, 0, (pages+1)*pageSize, syscall.PROT_READ|syscall.PROT_WRITE, syscall.MAP_ANON|syscall.MAP_PRIVATE)
	if err != nil {
		panic("arena mmap: " + err.Error())
	}
	if err := syscall.Mprotect(all[pages*pageSize:], syscall.PROT_NONE); err != nil {
		panic("arena mprotect: " + err.Error())
	}
	return &arena{mem: all[: pages*pageSize : pages*pageSize], all: all, pages: pages}
}

// tail returns the n+gap bytes region that ends at the guard page: the first n
// bytes are the object, the remaining gap bytes lie between it and the guard.
func (a *arena) tail(n, gap int) []byte {
	end := len(a.mem)
	return a.mem[end-n-gap : end : end]
}

// placeString copies s so that it ends gap bytes before the guard page and
// fills the gap with the given continuation bytes. The returned string header
// points into the arena (the GC ignores non-heap pointers).
func (a *arena) placeString(s string, gap int, cont []byte) string {
	r := a.tail(len(s), gap)
	copy(r, s)
	for i := 0; i < gap; i++ {
		r[len(s)+i] = cont[i%len(cont)]
	}
	if len(s) == 0 {
		return ""
	}
	return unsafe.String(&r[0], len(s))
}

// placeBytes is placeString for a []byte with cap == len.
func (a *arena) placeBytes(s []byte, gap int, cont []byte) []byte {
	r := a.tail(len(s), gap)
	copy(r, s)
	for i := 0; i < gap; i++ {
		r[len(s)+i] = cont[i%len(cont)]
	}
	return r[:len(s):len(s)]
}

// buffer returns a []byte of length l and capacity c whose capacity ends
// exactly at the guard page.
func (a *arena) buffer(l, c int) []byte {
	r := a.tail(c, 0)
	return r[:l:c]
}

func (a *arena) fill(b byte) {
	for i := range a.mem {
		a.mem[i] = b
	}
}
