//go:build verif

package main

import (
	"encoding/json"
	"fmt"
	"reflect"
	"runtime"
	"runtime/debug"
	"strings"

	"github.com/bytedance/sonic"
	"github.com/bytedance/sonic/internal/simrt"
	"github.com/bytedance/sonic/option"
)

// C10: runtime events (GC, stack growth / shrink = stack move, traceback,
// reschedule, background GC cycle with the write barrier on) injected at
// every opcode boundary of every compiled codec program (through sonic's own
// per-opcode debug seam, re-pointed at the simulator) and inside every user
// callback. One client; the event schedule is the tape.

func init() { workloads["C10"] = &workload{run: runC10, init: initC10} }

var c10 struct {
	t        *simrt.Tape
	rate     int // injection probability per hook call, in 1/10000
	active   bool
	kinds    [10]int
	hookDec  int
	hookEnc  int
	hookCb   int
	skipSave int
	ops      map[string]bool
	traceBad string
	bg       chan struct{}
	bgBusy   bool
	stkReq   chan struct{}
	stkRes   chan string
	depth    int
}

var c10EventNames = []string{"gc", "grow", "grow+gc(shrink)", "traceback", "gosched", "bg-gc-cycle", "debug.Stack", "alloc-churn", "block-profile-sample(fp-unwind)", "all-goroutines-stack-from-another-goroutine"}

func initC10(cfg map[string]string) {
	debug.SetGCPercent(-1) // only simulated collections happen
	runtime.SetBlockProfileRate(1)
	if !c10Install(c10OpHook) {
		fmt.Println(`{"k":"err","detail":"C10 needs the c10 build flavour"}`)
	}
	cbHook = func(site int) { c10Event(3, 1000+site, 0) }
	c10.ops = map[string]bool{}
	c10.bg = make(chan struct{}, 1)
	go func() {
		for range c10.bg {
			runtime.GC()
			c10.bgBusy = false
		}
	}()
	// helper that takes an all-goroutines traceback while the client is parked inside a
	// generated frame or a callback (unwinding starts from the saved scheduling context)
	c10.stkReq, c10.stkRes = make(chan struct{}), make(chan string)
	go func() {
		buf := make([]byte, 1<<20)
		for range c10.stkReq {
			n := runtime.Stack(buf, true)
			c10.stkRes <- string(buf[:n])
		}
	}()
}

func c10OpHook(dec bool, i, op, next int) {
	if !c10.active {
		return
	}
	if dec {
		c10.hookDec++
		c10Event(1, op, next)
	} else {
		c10.hookEnc++
		// upstream's own rule (debug_instr): no event at the boundary before a `save`
		// opcode, where a fresh object lives in a register only
		if strings.Contains(c10OpName(false, next), "save") {
			c10.skipSave++
			return
		}
		c10Event(2, op, next)
	}
}

//go:noinline
func c10Grow(n int) int {
	var pad [256]byte
	pad[n&255] = byte(n)
	if n <= 0 {
		return int(pad[0])
	}
	return c10Grow(n-1) + int(pad[n&255])
}

var c10Sink interface{}

// c10Sentinel is the harness frame every traceback must reach.
//
//go:noinline
func c10Sentinel(f func()) { f() }

func c10Event(where int, op, next int) {
	if !c10.active || c10.depth > 0 {
		return
	}
	t := c10.t
	if where == 3 {
		c10.hookCb++
	}
	if t.Draw(simrt.Faults, 10000) >= c10.rate {
		return
	}
	c10.depth++
	defer func() { c10.depth-- }()
	k := t.Draw(simrt.Faults, len(c10EventNames))
	c10.kinds[k]++
	t.Event(0xC10, uint64(where)<<24|uint64(op)<<8|uint64(k))
	switch k {
	case 0:
		runtime.GC()
	case 1:
		c10Grow(40 + t.Draw(simrt.Faults, 400))
	case 2:
		c10Grow(200 + t.Draw(simrt.Faults, 1500))
		runtime.GC() // stack is now mostly unused: the collection shrinks (moves) it
	case 3:
		var pcs [512]uintptr
		n := runtime.Callers(1, pcs[:])
		fr := runtime.CallersFrames(pcs[:n])
		ok := false
		var names []string
		for {
			f, more := fr.Next()
			if len(names) < 12 {
				names = append(names, f.Function)
			}
			if strings.HasSuffix(f.Function, "main.c10Sentinel") {
				ok = true
				break
			}
			if !more {
				break
			}
		}
		if !ok && c10.traceBad == "" {
			c10.traceBad = strings.Join(names, " <- ")
		}
	case 4:
		runtime.Gosched()
	case 5:
		if !c10.bgBusy {
			c10.bgBusy = true
			select {
			case c10.bg <- struct{}{}:
			default:
			}
			runtime.Gosched()
		}
	case 6:
		s := debug.Stack()
		if !strings.Contains(string(s), "c10Sentinel") && c10.traceBad == "" {
			c10.traceBad = "debug.Stack without sentinel"
		}
	case 7:
		var keep [][]byte
		for i := 0; i < 64; i++ {
			b := make([]byte, 16<<uint(i&7))
			for j := range b {
				b[j] = 0xAA
			}
			keep = append(keep, b)
		}
		c10Sink = keep
		c10Sink = nil
	case 9:
		// another goroutine dumps all stacks while this one is parked here
		c10.stkReq <- struct{}{}
		s := <-c10.stkRes
		// our own goroutine's section must show the sentinel below the generated frames
		if i := strings.Index(s, "main.c10Event("); i >= 0 {
			rest := s[i:]
			if j := strings.Index(rest, "\n\ngoroutine "); j >= 0 {
				rest = rest[:j]
			}
			if !strings.Contains(rest, "main.c10Sentinel(") && !strings.Contains(rest, "additional frames elided") && c10.traceBad == "" {
				c10.traceBad = "all-goroutines traceback taken by another goroutine stops early: " + clip(rest, 600)
			}
		}
	case 8:
		// a profile sample: the block profiler unwinds by FRAME POINTERS (not by the pc/sp
		// tables the other tracebacks use), through the generated frames below us
		ch := make(chan int)
		go func() { ch <- 1 }()
		<-ch // blocks: with SetBlockProfileRate(1) the runtime records a block event here
		var recs [256]runtime.BlockProfileRecord
		n, _ := runtime.BlockProfile(recs[:])
		for i := 0; i < n && i < len(recs); i++ {
			st := recs[i].Stack()
			fr := runtime.CallersFrames(st)
			inEvent, ok := false, false
			var names []string
			for {
				f, more := fr.Next()
				if len(names) < 14 {
					names = append(names, f.Function)
				}
				if strings.HasSuffix(f.Function, "main.c10Event") {
					inEvent = true
				}
				if strings.HasSuffix(f.Function, "main.c10Sentinel") {
					ok = true
				}
				if !more {
					break
				}
			}
			// Stack0 holds at most 32 frames: a full record may simply be cut off
			if inEvent && !ok && len(st) < 32 && c10.traceBad == "" {
				c10.traceBad = "block-profile stack (frame-pointer unwinding) stops early: " + strings.Join(names, " <- ")
			}
		}
	}
}

// c10MutateType replaces one number that is an object member's value by a string (a type
// mismatch for the generated destination types), preferring members deep in the document.
func c10MutateType(g *gen, text string) string {
	var cands [][2]int
	inStr := false
	for i := 0; i < len(text); i++ {
		ch := text[i]
		if inStr {
			if ch == '\\' {
				i++
			} else if ch == '"' {
				inStr = false
			}
			continue
		}
		if ch == '"' {
			inStr = true
			continue
		}
		if (ch == '-' || (ch >= '0' && ch <= '9')) && i > 0 && text[i-1] == ':' {
			j := i + 1
			for j < len(text) && strings.ContainsRune("0123456789.eE+-", rune(text[j])) {
				j++
			}
			cands = append(cands, [2]int{i, j})
			i = j - 1
		}
	}
	if len(cands) == 0 {
		return ""
	}
	c := cands[len(cands)-1-g.d(len(cands))%((len(cands)+1)/2)]
	return text[:c[0]] + `"oops"` + text[c[1]:]
}

func c10Churn() {
	runtime.GC()
	var keep []interface{}
	for i := 0; i < 400; i++ {
		b := make([]byte, 8<<uint(i%9))
		for j := range b {
			b[j] = 0xEE
		}
		keep = append(keep, b)
		keep = append(keep, &struct{ a, b, c, d uintptr }{0xdeaddead, 0xdeaddead, 0xdeaddead, 0xdeaddead})
	}
	c10Sink = keep
	c10Sink = nil
	runtime.GC()
}

func runC10(c *Ctx) Result {
	t := c.T
	g := &gen{t: t}
	z := &zoo{g: g, cb: true, maxDep: 2 + g.d(2), omitzero: true}
	c10.t = t
	c10.rate = []int{30, 100, 100, 300, 1000}[t.Draw(simrt.Knobs, 5)]
	c10.traceBad = ""
	for i := range c10.kinds {
		c10.kinds[i] = 0
	}
	c10.hookDec, c10.hookEnc, c10.hookCb, c10.skipSave = 0, 0, 0, 0
	runtime.GC()

	nTypes := 1 + g.d(3)
	types := make([]reflect.Type, nTypes)
	for i := range types {
		switch g.d(6) {
		case 0:
			types[i] = tRec
		case 1:
			types[i] = reflect.MapOf(tCbText, z.Type(1))
		case 2:
			types[i] = z.Type(0)
		default:
			types[i] = z.Struct(0)
		}
	}
	// in a third of the runs the programs are compiled ahead of time: Pretouch loads a type's
	// program and those of its nested types as ONE runtime module with many functions
	// (LoadMany: shared name table, pc tables and lookup buckets) instead of one module each
	pretouched := t.Draw(simrt.Knobs, 3) == 0
	if pretouched {
		opts := []option.CompileOption{option.WithCompileRecursiveDepth(1 + t.Draw(simrt.Knobs, 4)), option.WithCompileMaxInlineDepth(1 + t.Draw(simrt.Knobs, 3))}
		for _, ty := range types {
			if err := sonic.Pretouch(ty, opts...); err != nil {
				c.inc("pretouch_errors")
			}
		}
		c.inc("runs_with_batch_loaded_programs")
	}
	nRounds := 2 + g.d(6)
	var typeS []string
	for _, ty := range types {
		typeS = append(typeS, clip(ty.String(), 100))
	}
	sample := map[string]interface{}{"types": typeS, "rounds": nRounds, "rate_per_10000": c10.rate}
	res := Result{Sample: sample}
	var failure string
	var failSig string
	fail := func(sig, detail string) {
		if failSig == "" {
			failSig, failure = sig, detail
		}
	}

	type kept struct {
		val interface{}
		ref interface{}
		ti  int
	}
	var keep []kept
	type keptErr struct {
		err  error
		want string
		ti   int
		in   string
	}
	var keepErr []keptErr
	c10Sentinel(func() {
		for r := 0; r < nRounds && failSig == ""; r++ {
			ti := g.d(nTypes)
			v := z.Value(types[ti], 0)
			want, werr := json.Marshal(v.Interface())
			if werr != nil {
				continue
			}
			// encode under injection
			c10.active = true
			got, err := stdAPI.Marshal(v.Interface())
			c10.active = false
			if err != nil || string(got) != string(want) {
				// the same call without any injected event: if it deviates from encoding/json in the
				// same way, the value left the subset where encoding/json is a reference (C01/C03
				// material) - counted, not reported
				got2, err2 := stdAPI.Marshal(v.Interface())
				if (err != nil) == (err2 != nil) && string(got) == string(got2) {
					c.inc("harness_ref_disagrees_without_events")
					continue
				}
			}
			if err != nil {
				fail("encode-error", fmt.Sprintf("Marshal(%s) failed under runtime events: %v", typeS[ti], err))
				break
			}
			if string(got) != string(want) {
				fail("encode-output-differs", fmt.Sprintf("Marshal(%s) under runtime events gave %s, reference %s", typeS[ti], clip(string(got), 200), clip(string(want), 200)))
				break
			}
			// decode under injection
			refp := reflect.New(types[ti])
			if err := json.Unmarshal(want, refp.Interface()); err != nil {
				continue
			}
			p := reflect.New(types[ti])
			input := string(want) // the decoder may reference the input string
			c10.active = true
			err = stdAPI.UnmarshalFromString(input, p.Interface())
			c10.active = false
			if err != nil || !reflect.DeepEqual(p.Interface(), refp.Interface()) {
				p2 := reflect.New(types[ti])
				err2 := stdAPI.UnmarshalFromString(input, p2.Interface())
				if (err != nil) == (err2 != nil) && (err != nil || reflect.DeepEqual(p.Interface(), p2.Interface())) {
					c.inc("harness_ref_disagrees_without_events")
					continue
				}
			}
			if err != nil {
				fail("decode-error", fmt.Sprintf("Unmarshal(%s) failed under runtime events: %v | input %s", typeS[ti], err, clip(input, 200)))
				break
			}
			if !reflect.DeepEqual(p.Interface(), refp.Interface()) {
				a, _ := json.Marshal(p.Interface())
				fail("decoded-value-differs", fmt.Sprintf("Unmarshal(%s) under runtime events gave %s, reference %s", typeS[ti], clip(string(a), 200), clip(string(want), 200)))
				break
			}
			keep = append(keep, kept{p.Interface(), refp.Interface(), ti})
			c.inc("roundtrips")
			// a decode that FAILS with a type mismatch somewhere inside the value: the error object
			// is an output of the decoder too and must survive the events that follow its creation
			if bad := c10MutateType(g, input); bad != "" {
				pe := reflect.New(types[ti])
				c10.active = true
				err1 := stdAPI.UnmarshalFromString(bad, pe.Interface())
				c10.active = false
				pf := reflect.New(types[ti])
				err2 := stdAPI.UnmarshalFromString(bad, pf.Interface())
				if err1 != nil && err2 != nil {
					keepErr = append(keepErr, keptErr{err1, err2.Error(), ti, bad})
					c.inc("mismatch_decodes")
				}
				if (err1 != nil) != (err2 != nil) {
					fail("decode-error-differs", fmt.Sprintf("Unmarshal(%s) of %s: %v under runtime events, %v without", typeS[ti], clip(bad, 200), err1, err2))
					break
				}
			}
		}
	})
	if failSig == "" && len(keepErr) > 0 {
		c10Churn()
		for _, k := range keepErr {
			msg := func() (s string) {
				defer func() {
					if r := recover(); r != nil {
						s = "PANIC while reading the error: " + fmt.Sprint(r)
					}
				}()
				return k.err.Error()
			}()
			if msg != k.want {
				fail("decode-error-corrupted-after-gc", fmt.Sprintf("the error returned by Unmarshal(%s) of %s reads %q after two collections and allocation churn; the same decode without events: %q", typeS[k.ti], clip(k.in, 160), clip(msg, 200), clip(k.want, 200)))
				break
			}
		}
	}
	// values built by the decoder stay intact across collections and reuse of freed memory
	if failSig == "" {
		c10Churn()
		for _, k := range keep {
			if !reflect.DeepEqual(k.val, k.ref) {
				a, _ := json.Marshal(k.val)
				b, _ := json.Marshal(k.ref)
				fail("decoded-value-corrupted-after-gc", fmt.Sprintf("value of %s changed after two collections and allocation churn: %s, reference %s", typeS[k.ti], clip(string(a), 200), clip(string(b), 200)))
				break
			}
		}
	}
	// pointer stores of generated code while the collector is marking (see w_c10wb.go)
	if failSig == "" && t.Draw(simrt.Knobs, 5) == 0 {
		if sig, det := c10BarrierRound(c, t); sig != "" {
			fail(sig, det)
		}
	}
	if failSig == "" && c10.traceBad != "" {
		fail("traceback-stops-in-generated-code","a traceback taken at an opcode boundary / in a callback did not reach the harness sentinel frame: "+clip(c10.traceBad, 400))
	}
	nEv := 0
	for k, n := range c10.kinds {
		c.add("fault_"+c10EventNames[k], n)
		nEv += n
	}
	c.add("hook_calls_decoder", c10.hookDec)
	c.add("hook_calls_encoder", c10.hookEnc)
	c.add("hook_calls_callbacks", c10.hookCb)
	c.add("encoder_boundaries_exempt_before_save", c10.skipSave)
	sample["events"] = nEv
	sample["hook_calls"] = c10.hookDec + c10.hookEnc + c10.hookCb
	res.Nontrivial = nEv > 0
	if failSig != "" {
		res.Sig = "C10:" + failSig
		res.Detail = failure + fmt.Sprintf(" | types=%v rate=%d events=%d", typeS, c10.rate, nEv)
	}
	return res
}
