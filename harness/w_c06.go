//go:build verif

package main

import (
	"bytes"
	"encoding/json"
	"fmt"
	"reflect"
	"runtime/debug"
	"sort"
	"strings"
	"unsafe"

	"github.com/bytedance/sonic"
	"github.com/bytedance/sonic/ast"
	"github.com/bytedance/sonic/decoder"
	"github.com/bytedance/sonic/encoder"
	"github.com/bytedance/sonic/internal/simrt"
	"github.com/bytedance/sonic/option"
)

// C06: returned data is caller-owned; buffers and inputs are never aliased or
// overrun. One client drives a history of encode/decode calls over seeded
// pools (with poisoning of spare capacity on Put) and the arena (guard page /
// canaries after the capacity of caller buffers); the caller scribbles over
// its inputs after each call and keeps every result.

func init() { workloads["C06"] = &workload{run: runC06} }

var c06Arena *arena

type c06Kept struct {
	what string
	get  func() []byte // current bytes of the result
	snap []byte
}

var c06EncOpts = []encoder.Options{0, encoder.SortMapKeys, encoder.EscapeHTML, encoder.ValidateString, encoder.EscapeHTML | encoder.SortMapKeys | encoder.CompactMarshaler, encoder.NoNullSliceOrMap, encoder.EscapeHTML | encoder.ValidateString}

// c06Ref is what the encoder gives for v when its pools hold nothing from this run's history:
// the pools are set aside for the call and put back afterwards, so the reference neither
// depends on nor disturbs the history under test.
func c06Ref(v interface{}, opts encoder.Options) (ref []byte, err error) {
	simrt.PoolsAside(func() {
		var b []byte
		b, err = encoder.Encode(v, opts)
		ref = append([]byte(nil), b...)
	})
	return
}

func runC06(c *Ctx) Result {
	t := c.T
	if c06Arena == nil {
		c06Arena = newArena(64)
		debug.SetPanicOnFault(true)
	}
	g := &gen{t: t, o: genOpts{MaxDepth: 3, MaxWidth: 4, Escapes: true, Spaces: true, BigObject: true}}
	z := &zoo{g: g, cb: g.d(3) == 0, maxDep: 2 + g.d(2)}
	// knobs
	limits := []uint{0, 16, 256, 4096, 1 << 20}
	option.LimitBufferSize = limits[t.Draw(simrt.Knobs, len(limits))]
	option.DefaultEncoderBufferSize = []uint{1, 16, 4096}[t.Draw(simrt.Knobs, 3)]
	option.DefaultAstBufferSize = []uint{1, 16, 4096}[t.Draw(simrt.Knobs, 3)]
	option.DefaultDecoderBufferSize = []uint{1, 16, 4096}[t.Draw(simrt.Knobs, 3)]
	defer func() {
		option.LimitBufferSize, option.DefaultEncoderBufferSize, option.DefaultAstBufferSize, option.DefaultDecoderBufferSize = 1<<20, 4096, 4096, 4096
	}()
	simrt.PoolTape = t
	simrt.PoolMissPct = []int{0, 15, 50}[t.Draw(simrt.Knobs, 3)]
	defer func() { simrt.PoolTape, simrt.PoolMissPct = nil, 15 }()

	nTypes := 1 + g.d(3)
	types := make([]reflect.Type, nTypes)
	for i := range types {
		types[i] = z.Struct(0)
	}
	var kept []c06Kept
	var hist []string
	sample := map[string]interface{}{"limit": option.LimitBufferSize, "encbuf": option.DefaultEncoderBufferSize, "astbuf": option.DefaultAstBufferSize}
	res := Result{Sample: sample, Nontrivial: true}
	fail := func(sig, detail string) Result {
		res.Sig = "C06:" + sig
		res.Detail = detail + fmt.Sprintf(" | history=%v limit=%d encbuf=%d", hist, option.LimitBufferSize, option.DefaultEncoderBufferSize)
		sample["history"] = hist
		return res
	}
	keep := func(what string, get func() []byte) {
		kept = append(kept, c06Kept{what, get, append([]byte(nil), get()...)})
	}
	checkKept := func(after string) (string, string) {
		for i := range kept {
			k := &kept[i]
			if cur := k.get(); !bytes.Equal(cur, k.snap) {
				return "returned-data-changed:" + strings.SplitN(strings.SplitN(k.what, " ", 2)[0], "(", 2)[0],fmt.Sprintf("result #%d (%s) changed after %s: was %q, now %q", i, k.what, after, clip(string(k.snap), 80), clip(string(cur), 80))
			}
		}
		return "", ""
	}
	bigOrSmall := func() reflect.Value {
		v := z.Value(types[g.d(nTypes)], 0)
		return v
	}
	pad := func() string {
		// drive the output size to both sides of the pool limit
		switch g.d(6) {
		case 5: // dense in control characters: the quoted form is up to 6x longer, the buffer grows several times inside one string
			return strings.Repeat("\x01\x02\x1fdata", 1+g.d(24))
		case 4: // invalid UTF-8 (ValidateString rewrites the output into a second buffer), with HTML to escape
			return "bad\xff\xfeutf8" + strings.Repeat("<&>", g.d(20)) + strings.Repeat("\xc3", g.d(3))
		case 0:
			return strings.Repeat("p<", g.d(40))
		case 1:
			return strings.Repeat("q", int(option.LimitBufferSize%5000)+g.d(64)-32+32)
		default:
			return ""
		}
	}

	nOps := 3 + g.d(12)
	for op := 0; op < nOps; op++ {
		kind := g.d(13)
		var name string
		switch kind {
		case 0, 1, 2: // Marshal / MarshalString / MarshalIndent under option sets
			v := map[string]interface{}{"v": bigOrSmall().Interface(), "pad": pad()}
			opts := c06EncOpts[g.d(len(c06EncOpts))]
			ref, rerr := c06Ref(v, opts|encoder.SortMapKeys)
			var out []byte
			var err error
			switch kind {
			case 0:
				name = fmt.Sprintf("Encode(opts=%#x)", int(opts))
				out, err = encoder.Encode(v, opts|encoder.SortMapKeys)
			case 1:
				name = fmt.Sprintf("EncodeIndented(opts=%#x)", int(opts))
				out, err = encoder.EncodeIndented(v, "", "  ", opts|encoder.SortMapKeys)
				if rerr == nil {
					var ib bytes.Buffer
					json.Indent(&ib, ref, "", "  ")
					ref = ib.Bytes()
				}
			default:
				ref, rerr = c06Ref(v, encoder.SortMapKeys|encoder.EscapeHTML|encoder.CompactMarshaler|encoder.ValidateString)
				switch g.d(3) {
				case 0:
					name = "Marshal(ConfigStd)"
					out, err = sonic.ConfigStd.Marshal(v)
				case 1:
					// the returned string is the caller's: watched through its bytes
					name = "MarshalToString(ConfigStd)"
					var s string
					s, err = sonic.ConfigStd.MarshalToString(v)
					out = unsafeBytes(s)
				default:
					name = "MarshalIndent(ConfigStd)"
					out, err = sonic.ConfigStd.MarshalIndent(v, ">", " ")
					if rerr == nil {
						var ib bytes.Buffer
						json.Indent(&ib, ref, ">", " ")
						ref = ib.Bytes()
					}
				}
			}
			hist = append(hist, name)
			if (err != nil) != (rerr != nil) {
				return fail("output-depends-on-pool-state", fmt.Sprintf("%s: error %v, same call before: %v", name, err, rerr))
			}
			if err == nil {
				if !bytes.Equal(out, ref) {
					return fail("output-depends-on-pool-state", fmt.Sprintf("%s returned %q, the same value encoded a moment earlier gave %q", name, clip(string(out), 100), clip(string(ref), 100)))
				}
				o := out
				keep(name, func() []byte { return o })
			}
		case 3, 4: // EncodeInto a caller buffer: geometry from the tape
			v := map[string]interface{}{"v": bigOrSmall().Interface(), "pad": pad()}
			opts := c06EncOpts[g.d(len(c06EncOpts))] | encoder.SortMapKeys
			ref, rerr := c06Ref(v, opts)
			pl := g.d(33)
			capN := pl + g.d(2*len(ref)+40)
			if g.d(4) == 0 {
				capN = pl + len(ref) - 8 + g.d(16) // around the exact size
				if capN < pl {
					capN = pl
				}
			}
			guard := kind == 4
			var buf []byte
			var region []byte // for canary mode: prefix canary | buffer | suffix canary
			if guard {
				if capN > 32*pageSize {
					capN = 32 * pageSize
					if pl > capN {
						pl = capN
					}
				}
				buf = c06Arena.buffer(pl, capN)
			} else {
				region = make([]byte, 16+capN+32)
				for i := range region {
					region[i] = 0xC5
				}
				buf = region[16 : 16+pl : 16+capN]
			}
			for i := 0; i < pl; i++ {
				buf[i] = byte('A' + i%26)
			}
			junk := buf[pl:capN]
			for i := range junk {
				junk[i] = byte("\"\\{}[]:,0x"[i%10])
			}
			name = fmt.Sprintf("EncodeInto(len=%d,cap=%d,guard=%v,opts=%#x,out=%d)", pl, capN, guard, int(opts), len(ref))
			hist = append(hist, name)
			b := buf
			var err error
			faulted := func() (f string) {
				// a store to the guard page raised inside generated code becomes a recoverable panic
				defer func() {
					if x := recover(); x != nil {
						f = fmt.Sprint(x)
					}
				}()
				err = encoder.EncodeInto(&b, v, opts)
				return ""
			}()
			if faulted != "" {
				res.Fatal = true // pooled encoder state was abandoned mid-way: recycle the process
				return fail("encodeinto-wrote-past-capacity", name+": the encoder touched the unmapped page right after the buffer's capacity ("+clip(faulted, 80)+")")
			}
			if (err != nil) != (rerr != nil) {
				return fail("encodeinto-error-differs", fmt.Sprintf("%s: %v vs Encode: %v", name, err, rerr))
			}
			if err == nil {
				if len(b) < pl || string(b[:pl]) != string(prefixBytes(pl)) {
					return fail("encodeinto-prefix-changed", name+": the bytes before len(buf) were not preserved")
				}
				if !bytes.Equal(b[pl:], ref) {
					return fail("encodeinto-output-depends-on-buffer", fmt.Sprintf("%s produced %q, Encode gives %q", name, clip(string(b[pl:]), 100), clip(string(ref), 100)))
				}
				if !guard {
					for i := 0; i < 16; i++ {
						if region[i] != 0xC5 {
							return fail("encodeinto-wrote-before-buffer", name)
						}
					}
					for i := 16 + capN; i < len(region); i++ {
						if region[i] != 0xC5 {
							return fail("encodeinto-wrote-past-capacity", fmt.Sprintf("%s: byte %d after the end of the buffer's capacity was overwritten with %q", name, i-16-capN, region[i]))
						}
					}
					bb := b
					keep(name, func() []byte { return bb })
				}
				c.inc("encodeinto_checked")
				if guard {
					c.inc("fault_buffer_ends_at_guard_page")
				}
			}
		case 5, 6: // ast: MarshalJSON / Raw on raw, lazy, loaded nodes
			doc := g.Container()
			n := ast.NewRaw(doc)
			switch g.d(4) {
			case 1:
				n.Get("a")
				n.Index(0)
			case 2:
				n.LoadAll()
			case 3:
				n.Load()
				n.Set("zz", ast.NewNumber("1"))
				n.Set("zs", ast.NewString(pad())) // quoted by the Go-side loop into the pooled ast buffer
				n.Add(ast.NewNull())
			}
			if kind == 5 {
				name = "Node.MarshalJSON"
				b, err := n.MarshalJSON()
				hist = append(hist, name)
				if err == nil {
					keep(name, func() []byte { return b })
					// the same node encoded with the pools set aside and a roomy buffer: same JSON
					var ref []byte
					var rerr error
					oldSz := option.DefaultAstBufferSize
					simrt.PoolsAside(func() {
						option.DefaultAstBufferSize = 1 << 16
						ref, rerr = n.MarshalJSON()
						option.DefaultAstBufferSize = oldSz
					})
					if rerr != nil || canonText(string(b)) != canonText(string(ref)) {
						return fail("output-depends-on-pool-state", fmt.Sprintf("Node.MarshalJSON gave %q with the history's pooled buffers (ast buffer size %d), %q (%v) with fresh roomy ones", clip(string(b), 120), oldSz, clip(string(ref), 120), rerr))
					}
				}
			} else {
				name = "Node.Raw"
				s, err := n.Raw()
				hist = append(hist, name)
				if err == nil {
					keep(name, func() []byte { return unsafeBytes(s) })
				}
			}
		case 7, 8: // decode from a []byte, then scribble over the caller's input
			var text []byte
			var err error
			var dstp reflect.Value
			dstKind := g.d(3)
			switch dstKind {
			case 0: // into interface{}
				v := z.Value(types[g.d(nTypes)], 0)
				text, err = json.Marshal(map[string]interface{}{"v": v.Interface(), "s": g.str(), "n": json.Number(g.num()), "raw": json.RawMessage(`{"k":"` + g.str()[:0] + `vvv"}`)})
				dstp = reflect.ValueOf(new(interface{}))
			case 1: // into the generated type itself
				ty := types[g.d(nTypes)]
				text, err = json.Marshal(z.Value(ty, 0).Interface())
				dstp = reflect.New(ty)
			default: // every string-carrying destination kind, quoted (",string") fields included
				text = []byte(c06DstText(g))
				dstp = reflect.New(reflect.TypeOf(c06Dst{}))
			}
			if err != nil || len(text) == 0 {
				continue
			}
			input := append([]byte(nil), text...)
			ob := g.d(16) // UseNumber / UseInt64 / ValidateString / CaseSensitive
			if ob&3 == 3 {
				ob &^= 2
			}
			cfg := sonic.Config{UseNumber: ob&1 != 0, UseInt64: ob&2 != 0, ValidateString: ob&4 != 0, CaseSensitive: ob&8 != 0, CopyString: kind == 8}
			var derr error
			if kind == 7 {
				name = fmt.Sprintf("Unmarshal([]byte)(dst=%d,opts=%#x)", dstKind, ob)
				hist = append(hist, name)
				switch g.d(3) {
				case 0:
					derr = sonic.Unmarshal(input, dstp.Interface())
				case 1:
					derr = sonic.ConfigStd.Unmarshal(input, dstp.Interface())
				default:
					derr = cfg.Froze().Unmarshal(input, dstp.Interface())
				}
			} else {
				name = fmt.Sprintf("Decoder+CopyString(dst=%d,opts=%#x)", dstKind, ob)
				hist = append(hist, name)
				in := unsafe.String(&input[0], len(input))
				switch g.d(3) {
				case 0:
					d := decoder.NewDecoder(in)
					d.CopyString()
					if ob&1 != 0 {
						d.UseNumber()
					}
					if ob&2 != 0 {
						d.UseInt64()
					}
					if ob&4 != 0 {
						d.ValidateString()
					}
					derr = d.Decode(dstp.Interface())
				case 1:
					derr = cfg.Froze().UnmarshalFromString(in, dstp.Interface())
				default:
					derr = sonic.ConfigStd.UnmarshalFromString(in, dstp.Interface()) // ConfigStd sets CopyString
				}
			}
			if derr != nil {
				c.inc("decode_errors_still_checked")
			}
			before := deepShow(dstp.Elem())
			for i := range input {
				input[i] = 'X'
			}
			c.inc("fault_input_scribbled")
			after := deepShow(dstp.Elem())
			if before != after {
				return fail("decoded-value-aliases-input:"+strings.SplitN(name, "(", 2)[0]+[]string{":iface", ":generated", ":c06Dst"}[dstKind], fmt.Sprintf("%s: the decoded value changed when the caller overwrote its input buffer: %q -> %q (input %q)", name, clip(diffAround(before, after), 120), clip(diffAround(after, before), 120), clip(string(text), 200)))
			}
			d := dstp.Elem()
			keep(name+" value", func() []byte { return []byte(deepShow(d)) })
		case 9: // Get([]byte): the node must not alias the caller's buffer
			doc := g.Container()
			input := []byte(doc)
			jv, _ := parseJV(doc)
			var all [][]interface{}
			jv.paths(nil, &all)
			p := all[g.d(len(all))]
			name = "Get([]byte)"
			hist = append(hist, name)
			n, err := sonic.Get(input, p...)
			if err != nil {
				continue
			}
			raw1, _ := n.Raw()
			raw1 = strings.Clone(raw1)
			for i := range input {
				input[i] = 'X'
			}
			c.inc("fault_input_scribbled")
			raw2, _ := n.Raw()
			if raw1 != raw2 {
				return fail("decoded-value-aliases-input:Get", fmt.Sprintf("Get([]byte): the node changed when the caller overwrote its input buffer: %q -> %q", clip(raw1, 80), clip(raw2, 80)))
			}
			nn := n
			keep(name+" node", func() []byte { s, _ := nn.Raw(); return []byte(s) })
		case 11: // scans that END IN A SYNTAX ERROR: whatever they return to the pools (state machines, parsers) is what the next calls get
			doc := g.Container()
			bad := doc[:g.d(len(doc))]
			if g.d(3) == 0 {
				bad = doc[:len(doc)/2] + " x" + doc[len(doc)/2:]
			}
			switch g.d(4) {
			case 0:
				name = "Valid(malformed)"
				sonic.Valid([]byte(bad))
			case 1:
				name = "Get(malformed)"
				sonic.Get([]byte(bad), "a", 0)
			case 2:
				name = "decoder.Skip(malformed)"
				decoder.Skip([]byte(bad))
			default:
				name = "Unmarshal(malformed)"
				var v interface{}
				sonic.UnmarshalString(bad, &v)
			}
			hist = append(hist, name)
			c.inc("fault_failing_scan")
		default: // stream decode: values returned earlier survive later decodes
			var sb strings.Builder
			k := 1 + g.d(4)
			for i := 0; i < k; i++ {
				sb.WriteString(g.Doc())
				sb.WriteString(" ")
			}
			name = "StreamDecoder"
			hist = append(hist, name)
			sd := decoder.NewStreamDecoder(strings.NewReader(sb.String()))
			for i := 0; i < k; i++ {
				var raw json.RawMessage
				if err := sd.Decode(&raw); err != nil {
					break
				}
				r := raw
				keep(name+" RawMessage", func() []byte { return r })
			}
		}
		if sig, det := checkKept(name); sig != "" {
			return fail(sig, det)
		}
		t.Event(0xC06, uint64(kind))
	}
	c.add("results_kept", len(kept))
	c.add("fault_pool_miss", simrt.PoolStats.Miss)
	c.add("pool_poisoned_puts", simrt.PoolStats.Poison)
	sample["history"] = hist
	return res
}

func prefixBytes(n int) []byte {
	b := make([]byte, n)
	for i := range b {
		b[i] = byte('A' + i%26)
	}
	return b
}

func unsafeBytes(s string) []byte {
	if len(s) == 0 {
		return nil
	}
	return unsafe.Slice(unsafe.StringData(s), len(s))
}

// c06Dst has one field per way a decoded value can carry bytes of the input.
type c06Dst struct {
	N   json.Number
	Q   string      `json:",string"`
	QP  *string     `json:",string"`
	QN  json.Number `json:",string"`
	QI  int64       `json:",string"`
	I   interface{}
	M   map[string]interface{}
	MS  map[string]string
	U   map[string]json.Number
	R   json.RawMessage
	S   string
	PS  *string
	B   []byte
	A   []interface{}
	SS  []string
	E   struct {
		X string
		Y json.Number
		Z interface{}
	}
	EP *struct{ X string }
	AN ast.Node // decodes by keeping the bytes it is handed
}

var c06NodeType = reflect.TypeOf(ast.Node{})

func c06DstText(g *gen) string {
	var parts []string
	add := func(k, v string) {
		if g.d(3) != 0 {
			parts = append(parts, quoteJSON(k)+":"+v)
		}
	}
	qs := func() string { return quoteJSON(g.str()) }
	plain := func() string { return `"` + []string{"plain", "abcdefgh", "0123456789012345678901234567890123456789", "x"}[g.d(4)] + `"` }
	add("N", g.num())
	add("Q", quoteJSON(plain()))
	add("Q", quoteJSON(qs()))
	add("QP", quoteJSON(plain()))
	add("QN", `"`+g.num()+`"`)
	add("QI", `"`+fmt.Sprint(g.d(100000)-50000)+`"`)
	add("I", g.Doc())
	add("I", g.num())
	add("M", `{"k1":`+g.num()+`,"k2":`+qs()+`,"k3":[`+g.num()+`,`+plain()+`]}`)
	add("MS", `{"plainkey":`+plain()+`,`+qs()+`:`+qs()+`}`)
	add("U", `{"a":`+g.num()+`,"b":`+g.num()+`}`)
	add("R", g.Doc())
	add("S", plain())
	add("S", qs())
	add("PS", plain())
	add("B", `"aGVsbG8gd29ybGQ="`)
	add("A", `[`+g.num()+`,`+plain()+`,`+qs()+`,{"n":`+g.num()+`}]`)
	add("SS", `[`+plain()+`,`+qs()+`]`)
	add("E", `{"X":`+plain()+`,"Y":`+g.num()+`,"Z":`+g.num()+`}`)
	add("EP", `{"X":`+plain()+`}`)
	add("AN", `{"x":[1,2,3],"y":`+plain()+`}`)
	add("unknown", g.Doc())
	return "{" + strings.Join(parts, ",") + "}"
}

// deepShow renders every byte reachable from v (pointers and interfaces followed, map
// entries sorted by their rendering).
func deepShow(v reflect.Value) string {
	var sb strings.Builder
	deepShowW(&sb, v, 0)
	return sb.String()
}

func deepShowW(sb *strings.Builder, v reflect.Value, depth int) {
	if depth > 40 {
		sb.WriteString("<deep>")
		return
	}
	if !v.IsValid() {
		sb.WriteString("<nil>")
		return
	}
	switch v.Kind() {
	case reflect.Ptr, reflect.Interface:
		if v.IsNil() {
			sb.WriteString("nil")
			return
		}
		sb.WriteString("&")
		deepShowW(sb, v.Elem(), depth+1)
	case reflect.Struct:
		if v.Type() == c06NodeType {
			// an ast.Node keeps a reference to the text it was given: show that text
			if v.CanAddr() {
				r, err := v.Addr().Interface().(*ast.Node).Raw()
				sb.WriteString("node:" + r + ":" + errStr(err))
			}
			return
		}
		sb.WriteString("{")
		for i := 0; i < v.NumField(); i++ {
			sb.WriteString(v.Type().Field(i).Name + ":")
			deepShowW(sb, v.Field(i), depth+1)
			sb.WriteString(" ")
		}
		sb.WriteString("}")
	case reflect.Map:
		if v.IsNil() {
			sb.WriteString("nilmap")
			return
		}
		var ents []string
		it := v.MapRange()
		for it.Next() {
			var e strings.Builder
			deepShowW(&e, it.Key(), depth+1)
			e.WriteString("=>")
			deepShowW(&e, it.Value(), depth+1)
			ents = append(ents, e.String())
		}
		sort.Strings(ents)
		sb.WriteString("map[" + strings.Join(ents, " ") + "]")
	case reflect.Slice, reflect.Array:
		if v.Kind() == reflect.Slice && v.IsNil() {
			sb.WriteString("nilslice")
			return
		}
		if v.Type().Elem().Kind() == reflect.Uint8 {
			b := make([]byte, v.Len())
			reflect.Copy(reflect.ValueOf(b), v)
			sb.WriteString(fmt.Sprintf("bytes%q", b))
			return
		}
		sb.WriteString("[")
		for i := 0; i < v.Len(); i++ {
			deepShowW(sb, v.Index(i), depth+1)
			sb.WriteString(" ")
		}
		sb.WriteString("]")
	case reflect.String:
		sb.WriteString(fmt.Sprintf("%q", v.String()))
	case reflect.Bool:
		sb.WriteString(fmt.Sprint(v.Bool()))
	case reflect.Int, reflect.Int8, reflect.Int16, reflect.Int32, reflect.Int64:
		sb.WriteString(fmt.Sprint(v.Int()))
	case reflect.Uint, reflect.Uint8, reflect.Uint16, reflect.Uint32, reflect.Uint64, reflect.Uintptr:
		sb.WriteString(fmt.Sprint(v.Uint()))
	case reflect.Float32, reflect.Float64:
		sb.WriteString(fmt.Sprint(v.Float()))
	default:
		sb.WriteString("<" + v.Kind().String() + ">")
	}
}

// diffAround returns the part of a around the first position where it differs from b.
func diffAround(a, b string) string {
	i := 0
	for i < len(a) && i < len(b) && a[i] == b[i] {
		i++
	}
	from := i - 30
	if from < 0 {
		from = 0
	}
	return a[from:]
}
