//go:build verif

package main

import (
	"fmt"
	"sort"
	"strings"
	"time"

	"github.com/anishathalye/porcupine"
	"github.com/bytedance/sonic/internal/caching"
	"github.com/bytedance/sonic/internal/rt"
	"github.com/bytedance/sonic/internal/simrt"
)

// C08, component level (DESIGN 3, O5): caching.ProgramCache driven directly by
// concurrent clients under the seeded scheduler, with fabricated type keys
// whose hashes collide on purpose and capacities 2..8 so that every insertion
// probes, wraps around or rehashes. The invoke/return history (stamped with
// the simulator's event sequence numbers, a unique value per compute) is
// checked twice:
//   (1) safety oracle: every value returned for key k was computed FOR k by a
//       Compute invoked before the operation returned (never nil from Compute,
//       never another key's program);
//   (2) porcupine against a get-or-compute map model. Illegal under (2) with
//       (1) intact means an entry was lost and recomputed: legal for the
//       property (invisible to codec results), counted as a probe.

func init() { workloads["C08cache"] = &workload{run: runC08Cache} }

type ccIn struct {
	Op  int // 0 Get, 1 Compute
	Key int
	New int // value a Compute would produce
}

type ccOut struct {
	Val int // 0 = nil
}

func runC08Cache(c *Ctx) Result {
	t := c.T
	g := &gen{t: t}
	capacity := []int{2, 2, 4, 8}[t.Draw(simrt.Knobs, 4)]
	nKeys := 2 + g.d(5)
	keys := make([]*rt.GoType, nKeys)
	for i := range keys {
		// fabricated types: hashes collide modulo every small capacity, some are fully equal
		h := uint32([]int{0, 0, 8, 16, 1, 9, 3}[g.d(7)])
		keys[i] = &rt.GoType{Hash: h, Size: uintptr(100 + i)}
	}
	cache := caching.CreateProgramCache()
	cache.SimReset(capacity)
	nClients := 2 + g.d(4)
	type rec struct {
		in        ccIn
		out       ccOut
		call, ret int64
		client    int
		panicked  string
	}
	plans := make([][]ccIn, nClients)
	for i := range plans {
		n := 1 + g.d(6)
		for j := 0; j < n; j++ {
			plans[i] = append(plans[i], ccIn{Op: g.d(3) % 2, Key: g.d(nKeys), New: (i+1)*1000 + j + 1})
		}
	}
	hist := make([][]rec, nClients)
	sim := simrt.NewSim(t, 100000)
	for i := 0; i < nClients; i++ {
		i := i
		hist[i] = make([]rec, len(plans[i]))
		sim.Go(func() {
			for j, in := range plans[i] {
				r := &hist[i][j]
				r.in, r.client = in, i
				simrt.Yield(-100)
				r.call = int64(simrt.NextSeq())
				func() {
					defer func() {
						if x := recover(); x != nil {
							if _, isAbort := x.(interface{ abort() }); isAbort {
								panic(x)
							}
							r.panicked = fmt.Sprint(x)
							if strings.Contains(r.panicked, "abort") || strings.Contains(r.panicked, "deadlock") || strings.Contains(r.panicked, "steps") {
								panic(x)
							}
						}
					}()
					if in.Op == 0 {
						if v := cache.Get(keys[in.Key]); v != nil {
							r.out.Val = v.(int)
						}
					} else {
						v, err := cache.Compute(keys[in.Key], func(*rt.GoType, ...interface{}) (interface{}, error) {
							simrt.Yield(-101) // a compile takes time: other clients run meanwhile
							return in.New, nil
						})
						if err == nil && v != nil {
							r.out.Val = v.(int)
						}
					}
				}()
				r.ret = int64(simrt.NextSeq())
			}
		})
	}
	sim.Run()
	c.add("sched_steps", sim.Steps)
	c.add("sched_switches", sim.Switches)
	_, m := cache.SimStats()
	if m > capacity {
		c.inc("probe_cache_rehashed")
	}
	sample := map[string]interface{}{"capacity": capacity, "keys": nKeys, "clients": nClients, "steps": sim.Steps, "switches": sim.Switches}
	var all []rec
	for _, h := range hist {
		all = append(all, h...)
	}
	sort.Slice(all, func(i, j int) bool { return all[i].call < all[j].call })
	var hs []string
	for _, r := range all {
		hs = append(hs, fmt.Sprintf("c%d %s(k%d)=%d [%d,%d]", r.client, []string{"Get", "Compute"}[r.in.Op], r.in.Key, r.out.Val, r.call, r.ret))
	}
	sample["history"] = hs
	res := Result{Sample: sample, Nontrivial: sim.Switches > nClients}
	fail := func(sig, detail string, fatal bool) Result {
		res.Sig = "C08:cache:" + sig
		res.Detail = detail + fmt.Sprintf(" | capacity=%d hashes=%v history=%v", capacity, keyHashes(keys), hs)
		res.Fatal = fatal
		return res
	}
	if sim.Deadlock {
		return fail("deadlock", fmt.Sprintf("clients %v blocked for ever", sim.Blocked), true)
	}
	if sim.Livelock {
		c.inc("cap_step_budget_hit")
		return Result{Sample: sample, Fatal: true}
	}
	for i := 0; i < nClients; i++ {
		if p := sim.ClientPanic(i); p != nil {
			return fail("panic", fmt.Sprintf("client %d: %v", i, clip(fmt.Sprint(p), 200)), true)
		}
	}
	// (1) safety
	for _, r := range all {
		if r.panicked != "" {
			return fail("panic", fmt.Sprintf("%s(k%d) panicked: %s", []string{"Get", "Compute"}[r.in.Op], r.in.Key, clip(r.panicked, 200)), false)
		}
		if r.in.Op == 1 && r.out.Val == 0 {
			return fail("compute-returned-nil", fmt.Sprintf("Compute(k%d) returned nil", r.in.Key), false)
		}
		if r.out.Val == 0 {
			continue
		}
		ok := false
		for _, w := range all {
			if w.in.Op == 1 && w.in.New == r.out.Val {
				if w.in.Key != r.in.Key {
					return fail("value-of-another-key", fmt.Sprintf("%s(k%d) returned %d, which was computed for k%d", []string{"Get", "Compute"}[r.in.Op], r.in.Key, r.out.Val, w.in.Key), false)
				}
				if w.call <= r.ret {
					ok = true
				}
			}
		}
		if !ok {
			return fail("value-from-nowhere", fmt.Sprintf("%s(k%d) returned %d, which no Compute invoked before its return produced", []string{"Get", "Compute"}[r.in.Op], r.in.Key, r.out.Val), false)
		}
	}
	c.add("cache_ops_checked", len(all))
	// (2) porcupine, get-or-compute map
	var ops []porcupine.Operation
	for _, r := range all {
		ops = append(ops, porcupine.Operation{ClientId: r.client, Input: r.in, Call: r.call, Output: r.out, Return: r.ret})
	}
	model := porcupine.Model{
		Init: func() interface{} { return "" },
		Step: func(state, input, output interface{}) (bool, interface{}) {
			st := decodeState(state.(string))
			in, out := input.(ccIn), output.(ccOut)
			cur := st[in.Key]
			if in.Op == 0 {
				return out.Val == cur, state
			}
			if cur != 0 {
				return out.Val == cur, state
			}
			if out.Val != in.New {
				return false, state
			}
			st[in.Key] = in.New
			return true, encodeState(st)
		},
		Equal: func(a, b interface{}) bool { return a.(string) == b.(string) },
	}
	switch porcupine.CheckOperationsTimeout(model, ops, 5*time.Second) {
	case porcupine.Illegal:
		c.inc("probe_cache_entry_lost_and_recomputed")
	case porcupine.Unknown:
		c.inc("cap_porcupine_timeout")
	default:
		c.inc("histories_linearizable")
	}
	return res
}

func keyHashes(keys []*rt.GoType) []uint32 {
	var h []uint32
	for _, k := range keys {
		h = append(h, k.Hash)
	}
	return h
}

func decodeState(s string) map[int]int {
	m := map[int]int{}
	for _, kv := range strings.Split(s, ";") {
		var k, v int
		if n, _ := fmt.Sscanf(kv, "%d=%d", &k, &v); n == 2 {
			m[k] = v
		}
	}
	return m
}

func encodeState(m map[int]int) string {
	ks := make([]int, 0, len(m))
	for k := range m {
		ks = append(ks, k)
	}
	sort.Ints(ks)
	var sb strings.Builder
	for _, k := range ks {
		fmt.Fprintf(&sb, "%d=%d;", k, m[k])
	}
	return sb.String()
}
