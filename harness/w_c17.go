//go:build verif

package main

import (
	"bytes"
	"encoding/json"
	"errors"
	"fmt"
	"io"
	"os"
	"reflect"
	"strings"

	"github.com/bytedance/sonic"
	"github.com/bytedance/sonic/ast"
	"github.com/bytedance/sonic/decoder"
	"github.com/bytedance/sonic/encoder"
	"github.com/bytedance/sonic/internal/simrt"
	"github.com/bytedance/sonic/option"
)

// C17: stream decoder/encoder over a simulated Reader / Writer.

func init() { workloads["C17"] = &workload{run: runC17} }

type injectedErr struct{ n int }

func (e *injectedErr) Error() string { return fmt.Sprintf("injected#%d", e.n) }

// simReader delivers data according to a plan drawn from the Faults stream.
type simReader struct {
	t        *simrt.Tape
	data     []byte
	pos      int
	bounds   []int // token-ish boundaries (ends of frames) for boundary-aligned chunks
	calls    int
	failAt   int // Read-call index at which an error is injected (-1: never)
	failWith int // bytes delivered together with the injected error
	err      error
	errSeen  bool
	empties  int
	mode     int // 0 mixed, 1 byte-at-a-time, 2 everything at once
	eofWith  bool
	offered  []int
	log      []string
	nEmpty, nDataEOF, nErr, nSmall int
	faults   bool
}

func (r *simReader) Read(p []byte) (int, error) {
	idx := r.calls
	r.calls++
	if len(r.offered) < 32 {
		r.offered = append(r.offered, len(p))
	}
	if r.errSeen {
		return 0, r.err
	}
	if len(p) == 0 {
		return 0, nil
	}
	rest := len(r.data) - r.pos
	if idx == r.failAt {
		k := r.failWith
		if k > rest {
			k = rest
		}
		if k > len(p) {
			k = len(p)
		}
		copy(p, r.data[r.pos:r.pos+k])
		r.pos += k
		r.errSeen = true
		r.nErr++
		r.logf("E%d", k)
		return k, r.err
	}
	if rest == 0 {
		r.logf("eof")
		return 0, io.EOF
	}
	var k int
	switch r.mode {
	case 1:
		k = 1
	case 2:
		k = rest
	default:
		switch r.t.Draw(simrt.Faults, 10) {
		case 0:
			k = 1
		case 1:
			k = 2
		case 2:
			k = 3
		case 3, 4:
			k = 1 + r.t.Draw(simrt.Faults, len(p))
		case 5:
			k = rest
		case 6, 7: // up to the next value boundary, +-1
			k = rest
			for _, b := range r.bounds {
				if b > r.pos {
					k = b - r.pos + r.t.Draw(simrt.Faults, 3) - 1
					break
				}
			}
			if k <= 0 {
				k = 1
			}
		case 8:
			if r.empties < 3 {
				r.empties++
				r.nEmpty++
				r.logf("0")
				return 0, nil
			}
			k = 1
		default:
			k = 1 + r.t.Draw(simrt.Faults, 8)
		}
	}
	r.empties = 0
	if k > rest {
		k = rest
	}
	if k > len(p) {
		k = len(p)
	}
	if k < 4 {
		r.nSmall++
	}
	copy(p, r.data[r.pos:r.pos+k])
	r.pos += k
	if r.pos == len(r.data) && r.eofWith {
		r.nDataEOF++
		r.logf("%d+eof", k)
		return k, io.EOF
	}
	r.logf("%d", k)
	return k, nil
}

func (r *simReader) logf(f string, a ...interface{}) {
	if len(r.log) < 64 {
		r.log = append(r.log, fmt.Sprintf(f, a...))
	}
}

type c17Struct struct {
	A int64             `json:"a"`
	B string            `json:"b"`
	C []int             `json:"c"`
	D map[string]string `json:"d"`
	E *c17Struct        `json:"e"`
}

func c17NewDst(kind int) interface{} {
	switch kind {
	case 0:
		return new(interface{})
	case 1:
		return new(json.RawMessage)
	case 2:
		return new(c17Struct)
	default:
		return new(ast.Node)
	}
}

// normalise makes results comparable with DeepEqual / after later calls.
func c17Norm(kind int, v interface{}) interface{} {
	switch kind {
	case 3:
		n := v.(*ast.Node)
		b, err := n.MarshalJSON()
		if err != nil {
			return "ERR:" + err.Error()
		}
		return string(b)
	case 1:
		return string(*v.(*json.RawMessage))
	case 0:
		return *v.(*interface{})
	default:
		return *v.(*c17Struct)
	}
}

func genC17Value(g *gen, kind int) string {
	if kind == 2 {
		var sb strings.Builder
		sb.WriteByte('{')
		first := true
		add := func(s string) {
			if !first {
				sb.WriteByte(',')
			}
			first = false
			sb.WriteString(s)
		}
		if g.d(2) == 0 {
			add(`"a":` + fmt.Sprint(g.d(100000)-500))
		}
		if g.d(2) == 0 {
			add(`"b":` + quoteJSON(g.str()))
		}
		if g.d(2) == 0 {
			n := g.d(5)
			if g.d(10) == 0 {
				n = 200 + g.d(400)
			}
			s := make([]string, n)
			for i := range s {
				s[i] = fmt.Sprint(g.d(1000))
			}
			add(`"c":[` + strings.Join(s, ",") + `]`)
		}
		if g.d(3) == 0 {
			add(`"d":{"k":` + quoteJSON(g.str()) + `}`)
		}
		if g.d(4) == 0 {
			add(`"e":{"a":1,"e":null}`)
		}
		if g.d(4) == 0 {
			add(`"unknown":` + g.Doc())
		}
		sb.WriteByte('}')
		return sb.String()
	}
	if g.d(12) == 0 { // a value larger than small buffers
		n := 50 + g.d(3000)
		return `"` + strings.Repeat("x", n) + `"`
	}
	return g.Doc()
}

var c17Seps = []string{" ", "\n", "", "\t\r\n ", "  ", "\n\n", strings.Repeat(" ", 70)}
// Tails are limited to what is malformed or truncated already at the framing
// level (what is or is not a well-formed *value* is C02's subject, not C17's).
var c17Tails = []string{"", " ", "\n  \t", `{"a":1`, `"abc`, `tru`, `[1,`, `]`, `}`, `x`, `nul`, `"\u12`, `{"a":[1,2,`, `@`, ` ]`, `{"k":tru`, `fals`, `{"a":"b`, `[[`, `{`}

type c17Model struct {
	frames   []string
	term     int // 0 clean EOF, 1 truncated (proper prefix of a value), 2 malformed
	frameEnd []int
}

// c17Frame: "decoding the concatenated input value by value". Framing by
// encoding/json's stream tokenizer (framing only).
func c17Frame(data []byte) c17Model {
	var m c17Model
	d := json.NewDecoder(bytes.NewReader(data))
	for {
		var raw json.RawMessage
		err := d.Decode(&raw)
		if err == io.EOF {
			return m
		}
		if err == io.ErrUnexpectedEOF {
			m.term = 1
			return m
		}
		if err != nil {
			m.term = 2
			return m
		}
		m.frames = append(m.frames, string(raw))
		m.frameEnd = append(m.frameEnd, int(d.InputOffset()))
	}
}

func c17ModelVals(frames []string, kind, dopts int) (vals []interface{}, errAt int) {
	errAt = -1
	for i, f := range frames {
		dst := c17NewDst(kind)
		d := decoder.NewDecoder(f)
		c17DecOpts(d, dopts)
		if err := d.Decode(dst); err != nil {
			return vals, i
		}
		vals = append(vals, c17Norm(kind, dst))
	}
	return
}

func c17DecOpts(d *decoder.Decoder, o int) {
	if o&1 != 0 {
		d.UseNumber()
	}
	if o&2 != 0 {
		d.UseInt64()
	}
	if o&4 != 0 {
		d.CopyString()
	}
	if o&8 != 0 {
		d.ValidateString()
	}
	if o&16 != 0 {
		d.DisallowUnknownFields()
	}
}

func errClass(err error) string {
	if err == nil {
		return "nil"
	}
	if err == io.EOF {
		return "EOF"
	}
	if _, ok := err.(*injectedErr); ok {
		return err.Error()
	}
	if err == io.ErrUnexpectedEOF {
		return "error"
	}
	return "error"
}

func runC17(c *Ctx) Result {
	t := c.T
	if t.Draw(simrt.Knobs, 4) == 0 {
		return runC17Enc(c)
	}
	return runC17Dec(c)
}

func runC17Dec(c *Ctx) Result {
	t := c.T
	c.inc("dec_runs")
	// knobs
	bufSizes := []uint{4096, 1, 2, 7, 16, 64, 4096, 128 * 1024}
	option.DefaultDecoderBufferSize = bufSizes[t.Draw(simrt.Knobs, len(bufSizes))]
	defer func() { option.DefaultDecoderBufferSize = 128 * 1024 }()
	simrt.PoolTape = t
	defer func() { simrt.PoolTape = nil }()
	kind := t.Draw(simrt.Knobs, 4)
	dopts := t.Draw(simrt.Knobs, 32)
	if dopts&3 == 3 {
		dopts &^= 2 // UseNumber and UseInt64 are mutually exclusive
	}
	viaConfig := t.Draw(simrt.Knobs, 3) == 0
	faults := t.Draw(simrt.Knobs, 2) == 1 // fault-free vs fault-injecting sub-batch
	interleave := t.Draw(simrt.Knobs, 3) == 0

	g := &gen{t: t, o: genOpts{MaxDepth: 3, MaxWidth: 4, Escapes: true, Spaces: true, BigObject: false}}
	nv := g.d(9)
	var sb strings.Builder
	prevOpen := false // previous value ends in a number/literal and no separator followed
	for i := 0; i < nv; i++ {
		v := genC17Value(g, kind)
		if prevOpen && !strings.ContainsAny(v[:1], `{["`) {
			// "12" "-5" glued together is one token or two depending on the reader of
			// the grammar, not on chunking: keep value boundaries unambiguous
			sb.WriteByte(' ')
		}
		sb.WriteString(v)
		sep := c17Seps[g.d(len(c17Seps))]
		sb.WriteString(sep)
		prevOpen = sep == "" && !strings.ContainsAny(v[len(v)-1:], `}]"`)
	}
	tail := ""
	if g.d(2) == 0 {
		tail = c17Tails[g.d(len(c17Tails))]
	}
	if g.d(6) == 0 {
		sb.Reset()
		sb.WriteString(c17Seps[g.d(len(c17Seps))])
		if nv > 0 {
			sb.WriteString(genC17Value(g, kind))
			sb.WriteString(c17Seps[g.d(len(c17Seps))])
		}
	}
	sb.WriteString(tail)
	data := []byte(sb.String())
	if g.d(4) == 0 {
		// invalid UTF-8 inside strings (bytes >= 0x80 occur nowhere else): with ValidateString
		// the one-shot decoder works on a repaired copy that is longer than the stream's bytes
		for i := range data {
			if data[i] >= 0xC0 && g.d(2) == 0 {
				data[i] = 0xff
				c.inc("dec_invalid_utf8_bytes")
			}
		}
	}
	model := c17Frame(data)

	modelVals, modelErrAt := c17ModelVals(model.frames, kind, dopts)

	rd := &simReader{t: t, data: append([]byte(nil), data...), failAt: -1, bounds: model.frameEnd}
	rd.mode = []int{0, 0, 0, 1, 2}[t.Draw(simrt.Faults, 5)]
	rd.eofWith = t.Draw(simrt.Faults, 3) == 0
	if faults && t.Draw(simrt.Faults, 4) != 0 {
		// inject a reader error at some Read call; estimate the number of calls
		est := 2
		if rd.mode == 1 {
			est = len(data) + 1
		} else if rd.mode == 0 {
			est = len(data)/4 + 2
		}
		rd.failAt = t.Draw(simrt.Faults, est)
		if t.Draw(simrt.Faults, 2) == 0 {
			rd.failWith = 1 + t.Draw(simrt.Faults, 6)
		}
		rd.err = &injectedErr{n: rd.failAt}
	}

	var dec sonic.Decoder
	if viaConfig {
		cfg := sonic.Config{UseNumber: dopts&1 != 0, UseInt64: dopts&2 != 0, CopyString: dopts&4 != 0, ValidateString: dopts&8 != 0,
			DisallowUnknownFields: dopts&16 != 0}.Froze()
		dec = cfg.NewDecoder(rd)
	} else {
		sd := decoder.NewStreamDecoder(rd)
		c17DecOpts(&sd.Decoder, dopts)
		dec = sd
	}

	sample := map[string]interface{}{"input": clip(string(data), 200), "dst": []string{"interface", "RawMessage", "struct", "ast.Node"}[kind],
		"buf": option.DefaultDecoderBufferSize, "mode": rd.mode, "failAt": rd.failAt}

	var got []interface{}
	var keep []interface{}
	var term error
	limit := len(model.frames) + 6
	noProgress := 0
	for len(got) < limit {
		dst := c17NewDst(kind)
		callsBefore, offBefore := rd.calls, int64(-1)
		sd, isSD := dec.(*decoder.StreamDecoder)
		if isSD {
			if interleave {
				more := sd.More()
				off := int(sd.InputOffset())
				bb, _ := io.ReadAll(sd.Buffered())
				c.inc("interleaved_more_buffered")
				// More / InputOffset / Buffered are exercised between Decodes because they move the
				// same cursors; what they RETURN is not part of the property (the statement is about
				// the values and the terminal condition), so it is counted, never reported: e.g.
				// blanks before a clean end of stream are dropped from the buffer without being
				// counted by InputOffset
				if !rd.errSeen {
					i := len(got)
					if off < 0 || off > rd.pos || string(bb) != string(data[off:rd.pos]) {
						c.inc("observed_offset_and_buffered_disagree")
					}
					if (i < len(modelVals) && !more) || (i == len(model.frames) && model.term == 0 && more) {
						c.inc("observed_more_disagrees_with_model")
					}
				}
			}
			callsBefore, offBefore = rd.calls, sd.InputOffset()
		}
		err := dec.Decode(dst)
		if err != nil {
			term = err
			break
		}
		if isSD && rd.calls == callsBefore && sd.InputOffset() == offBefore {
			noProgress++
		}
		keep = append(keep, dst)
		got = append(got, c17Norm(kind, dst))
	}
	sample["reads"] = rd.log
	sample["values"] = len(got)
	sample["terminal"] = errClass(term)
	c.add("reads", rd.calls)
	c.add("fault_empty_read", rd.nEmpty)
	c.add("fault_data_with_eof", rd.nDataEOF)
	c.add("fault_reader_error", rd.nErr)
	c.add("small_chunks", rd.nSmall)
	if len(rd.offered) > 0 && rd.offered[0] <= 16 {
		c.inc("probe_small_buffer_offered")
	}
	for _, o := range rd.offered {
		if o > 4096 && option.DefaultDecoderBufferSize < 4096 {
			c.inc("probe_buffer_regrown")
			break
		}
	}
	res := Result{Sample: sample, Nontrivial: rd.calls >= 2 && len(model.frames)+len(tail) > 0}
	t.Event(0xC17, uint64(len(got))<<8|uint64(len(errClass(term))))
	for _, l := range rd.log {
		t.Event(0xC171, uint64(len(l))<<8|uint64(l[0]))
	}
	fail := func(sig, detail string) Result {
		res.Sig = "C17:decode:" + sig
		res.Detail = detail + fmt.Sprintf(" | input=%q dst=%v reads=%v got=%d values terminal=%v", clip(string(data), 120), sample["dst"], clipList(rd.log, 24), len(got), term)
		return res
	}

	// (5) progress
	if noProgress > 0 && len(got) > len(model.frames) {
		return fail("success-without-consuming", fmt.Sprintf("Decode returned nil %d times without reading or advancing", noProgress))
	}
	if len(got) >= limit {
		return fail("more-values-than-input", "more successful Decodes than the input holds values")
	}
	// (1) prefix equality, now (after all later calls)
	for i := range got {
		if i >= len(modelVals) {
			return fail("extra-value", fmt.Sprintf("value #%d returned but the model has only %d", i, len(modelVals)))
		}
		now := c17Norm(kind, keep[i])
		if !reflect.DeepEqual(now, got[i]) {
			return fail("earlier-value-disturbed", fmt.Sprintf("value #%d changed after later Decode calls", i))
		}
		if !reflect.DeepEqual(got[i], modelVals[i]) {
			return fail("value-mismatch", fmt.Sprintf("value #%d = %v, model %v", i, clip(fmt.Sprint(got[i]), 80), clip(fmt.Sprint(modelVals[i]), 80)))
		}
	}
	// terminal
	if term == nil {
		return fail("no-terminal", "loop ended without error")
	}
	if rd.errSeen {
		c.inc("runs_with_reader_error")
		if term == io.EOF {
			return fail("reader-error-became-eof", "reader failed with an injected error but Decode reported io.EOF")
		}
		// the decoder saw exactly data[:pos] and then the error, for ever
		m2 := c17Frame(data[:rd.pos])
		v2, errAt2 := c17ModelVals(m2.frames, kind, dopts)
		certain := len(v2)
		if n := len(m2.frames); n > 0 && certain == n && m2.frameEnd[n-1] == rd.pos {
			f := m2.frames[n-1]
			if !(strings.HasPrefix(f, "{") || strings.HasPrefix(f, "[") || strings.HasPrefix(f, `"`)) {
				certain-- // a number/literal cut exactly at the failure may be incomplete: may be withheld
				c.inc("relaxation_uncertain_last_value")
			}
		}
		if len(got) > len(v2) {
			return fail("extra-value", fmt.Sprintf("%d values returned, only %d were delivered before the reader failed", len(got), len(v2)))
		}
		if len(got) < certain {
			return fail("value-lost-before-reader-error", fmt.Sprintf("%d values were completely delivered before the reader failed, only %d returned", certain, len(got)))
		}
		if ie, ok := term.(*injectedErr); ok {
			if ie != rd.err {
				return fail("foreign-error", "a different injected error instance")
			}
		} else if m2.term != 2 && errAt2 < 0 {
			// what was delivered is a well-formed (possibly truncated) stream: only the reader's error explains the stop
			return fail("reader-error-replaced", fmt.Sprintf("reader failed with %v but Decode returned %v", rd.err, term))
		}
	} else {
		// (2) no injected error: whole sequence and terminal condition
		if len(got) != len(modelVals) {
			return fail("value-missing", fmt.Sprintf("%d values returned, model has %d", len(got), len(modelVals)))
		}
		wantEOF := model.term == 0 && modelErrAt < 0
		if wantEOF && term != io.EOF {
			return fail("error-on-clean-end", fmt.Sprintf("clean end of stream reported as %v", term))
		}
		if !wantEOF && term == io.EOF {
			kindT := "malformed"
			if model.term == 1 {
				kindT = "truncated"
			}
			return fail("clean-eof-on-"+kindT+"-tail", "trailing data is not a complete value but the stream ended with io.EOF")
		}
	}
	// (4) sticky
	for i := 0; i < 2; i++ {
		dst := c17NewDst(kind)
		if err := dec.Decode(dst); err == nil {
			return fail("not-sticky", "Decode succeeded after a terminal error")
		}
	}
	if len(got) > 0 {
		c.inc("values_checked")
	}
	return res
}

var noClip = os.Getenv("VERIF_FULL") != ""

func clip(s string, n int) string {
	if len(s) > n && !noClip {
		return s[:n] + fmt.Sprintf("...(%d bytes)", len(s))
	}
	return s
}

func clipList(l []string, n int) []string {
	if len(l) > n {
		return append(append([]string{}, l[:n]...), "...")
	}
	return l
}

// ---------------------------------------------------------------- encoder

type simWriter struct {
	got     []byte
	failAt  int // absolute byte offset at which the writer fails (-1 never)
	err     error
	failed  bool
	calls   int
	short   bool // fail as a short write without own error? (contract: must return non-nil)
	log     []string
	failedCall int
	transient  bool // only one Write fails (EAGAIN-like); later Writes succeed again
	maxChunk   int  // > 0: accepts at most that many bytes per Write and reports no error (the encoder's write loop retries the rest)
}

func (w *simWriter) Write(p []byte) (int, error) {
	w.calls++
	if w.failed && !w.transient {
		return 0, w.err
	}
	if w.maxChunk > 0 && len(p) > w.maxChunk {
		w.got = append(w.got, p[:w.maxChunk]...)
		if len(w.log) < 32 {
			w.log = append(w.log, fmt.Sprintf("%d of %d", w.maxChunk, len(p)))
		}
		return w.maxChunk, nil
	}
	if w.failAt >= 0 && !w.failed && len(w.got)+len(p) > w.failAt {
		k := w.failAt - len(w.got)
		if k < 0 {
			k = 0
		}
		w.got = append(w.got, p[:k]...)
		w.failed = true
		w.failedCall = w.calls
		w.log = append(w.log, fmt.Sprintf("%d/%d!", k, len(p)))
		return k, w.err
	}
	w.got = append(w.got, p...)
	if len(w.log) < 32 {
		w.log = append(w.log, fmt.Sprint(len(p)))
	}
	return len(p), nil
}

type c17EncT struct {
	A int               `json:"a"`
	S string            `json:"s"`
	L []interface{}     `json:"l"`
	M map[string]string `json:"m,omitempty"`
	P *c17EncT          `json:"p"`
}

func genEncValue(g *gen, depth int) interface{} {
	switch g.d(8) {
	case 0:
		return g.d(100000) - 50000
	case 1:
		return g.str()
	case 2:
		return nil
	case 3:
		return g.d(2) == 0
	case 4:
		n := g.d(4)
		l := make([]interface{}, n)
		for i := range l {
			if depth < 2 {
				l[i] = genEncValue(g, depth+1)
			} else {
				l[i] = i
			}
		}
		return l
	case 5:
		v := &c17EncT{A: g.d(1000), S: g.str()}
		if depth < 2 && g.d(2) == 0 {
			v.L = []interface{}{genEncValue(g, depth+1)}
		}
		if g.d(3) == 0 {
			v.M = map[string]string{"k": g.str()}
		}
		if depth < 2 && g.d(3) == 0 {
			v.P = &c17EncT{A: 1}
		}
		return v
	case 6:
		return map[string]interface{}{"only": g.str()}
	default:
		return strings.Repeat("y<", g.d(600))
	}
}

func runC17Enc(c *Ctx) Result {
	t := c.T
	c.inc("enc_runs")
	simrt.PoolTape = t
	defer func() { simrt.PoolTape = nil }()
	g := &gen{t: t, o: genOpts{Escapes: true}}
	n := 1 + g.d(5)
	vals := make([]interface{}, n)
	for i := range vals {
		vals[i] = genEncValue(g, 0)
	}
	var opts encoder.Options
	if t.Draw(simrt.Knobs, 2) == 0 {
		opts |= encoder.EscapeHTML
	}
	if t.Draw(simrt.Knobs, 2) == 0 {
		opts |= encoder.SortMapKeys
	}
	if t.Draw(simrt.Knobs, 3) == 0 {
		opts |= encoder.NoEncoderNewline
	}
	if t.Draw(simrt.Knobs, 4) == 0 {
		opts |= encoder.ValidateString
	}
	indent := t.Draw(simrt.Knobs, 3) == 0
	viaConfig := t.Draw(simrt.Knobs, 3) == 0
	faults := t.Draw(simrt.Knobs, 2) == 1

	// the settings may be switched between calls on the same encoder (SetIndent / SetEscapeHTML)
	switching := t.Draw(simrt.Knobs, 3) == 0
	indentAt, htmlAt := make([]bool, n), make([]bool, n)
	for i := range vals {
		indentAt[i], htmlAt[i] = indent, opts&encoder.EscapeHTML != 0
		if switching && i > 0 {
			indentAt[i], htmlAt[i] = indentAt[i-1], htmlAt[i-1]
			switch t.Draw(simrt.Knobs, 4) {
			case 0:
				indentAt[i] = !indentAt[i]
			case 1:
				htmlAt[i] = !htmlAt[i]
			}
		}
	}
	// pooled encoder buffers: values on both sides of the limit above which a buffer is not recycled
	option.LimitBufferSize = []uint{1 << 20, 0, 16, 512, 4096}[t.Draw(simrt.Knobs, 5)]
	defer func() { option.LimitBufferSize = 1 << 20 }()

	// reference: Marshal's bytes (+ newline)
	var exp [][]byte
	total := 0
	for i, v := range vals {
		var b []byte
		var err error
		o := opts &^ encoder.EscapeHTML
		if htmlAt[i] {
			o |= encoder.EscapeHTML
		}
		if indentAt[i] {
			b, err = encoder.EncodeIndented(v, ">", "  ", o)
		} else {
			b, err = encoder.Encode(v, o)
		}
		if err != nil {
			return Result{Sig: "", Detail: "reference encode failed: " + err.Error()}
		}
		b = append([]byte(nil), b...)
		if opts&encoder.NoEncoderNewline == 0 {
			b = append(b, '\n')
		}
		exp = append(exp, b)
		total += len(b)
	}
	w := &simWriter{failAt: -1}
	nlFault := false
	if faults && total > 0 {
		w.err = &injectedErr{n: 7}
		if t.Draw(simrt.Faults, 3) == 0 && opts&encoder.NoEncoderNewline == 0 {
			// aim at a newline
			k := t.Draw(simrt.Faults, n)
			off := 0
			for i := 0; i <= k; i++ {
				off += len(exp[i])
			}
			w.failAt = off - 1
			nlFault = true
		} else {
			w.failAt = t.Draw(simrt.Faults, total)
		}
		w.transient = t.Draw(simrt.Faults, 2) == 1
	}
	if !faults && !indent && !switching && t.Draw(simrt.Faults, 4) == 0 {
		// a Writer that takes only part of what it is offered without reporting an error: the
		// non-indenting path writes in a loop until everything is delivered
		w.maxChunk = 1 + t.Draw(simrt.Faults, 16)
		c.inc("fault_writer_partial_writes_without_error")
	}
	var enc sonic.Encoder
	if viaConfig {
		cfg := sonic.Config{EscapeHTML: opts&encoder.EscapeHTML != 0, SortMapKeys: opts&encoder.SortMapKeys != 0,
			NoEncoderNewline: opts&encoder.NoEncoderNewline != 0, ValidateString: opts&encoder.ValidateString != 0}.Froze()
		enc = cfg.NewEncoder(w)
		if indent {
			enc.SetIndent(">", "  ")
		}
	} else {
		se := encoder.NewStreamEncoder(w)
		se.Opts = opts
		if indent {
			se.SetIndent(">", "  ")
		}
		enc = se
	}
	sample := map[string]interface{}{"kind": "encode", "values": n, "opts": int(opts), "indent": indent, "failAt": w.failAt, "total": total}
	res := Result{Sample: sample, Nontrivial: w.failAt >= 0 || n > 1}
	fail := func(sig, detail string) Result {
		res.Sig = "C17:encode:" + sig
		res.Detail = detail + fmt.Sprintf(" | values=%d opts=%#x indent=%v failAt=%d total=%d writes=%v", n, int(opts), indent, w.failAt, total, w.log)
		return res
	}
	var want []byte
	for i, v := range vals {
		if switching && i > 0 {
			if indentAt[i] != indentAt[i-1] {
				if indentAt[i] {
					enc.SetIndent(">", "  ")
				} else {
					enc.SetIndent("", "")
				}
				c.inc("enc_settings_switched_between_calls")
			}
			if htmlAt[i] != htmlAt[i-1] {
				enc.SetEscapeHTML(htmlAt[i])
				c.inc("enc_settings_switched_between_calls")
			}
		}
		err := enc.Encode(v)
		want = append(want, exp[i]...)
		if w.failed {
			c.inc("fault_writer_error")
			if nlFault {
				c.inc("fault_writer_error_at_newline")
			}
			if err == nil {
				where := "data"
				if w.failAt == len(want)-1 && opts&encoder.NoEncoderNewline == 0 {
					where = "newline"
				}
				return fail("write-error-dropped-at-"+where, "a Write failed but Encode returned nil")
			}
			if !errors.Is(err, w.err) {
				return fail("write-error-replaced", fmt.Sprintf("Encode returned %v, the writer failed with %v", err, w.err))
			}
			if w.transient {
				c.inc("fault_writer_error_transient")
			}
			if len(w.got) < w.failAt || !bytes.Equal(w.got[:w.failAt], want[:w.failAt]) {
				return fail("bytes-before-failure-differ", "bytes accepted before the failure are not Marshal's bytes")
			}
			// later Encodes must fail too (the writer keeps failing)
			if i+1 < len(vals) && !w.transient {
				if err := enc.Encode(vals[i+1]); err == nil {
					return fail("write-error-dropped-later", "Encode returned nil although every Write fails")
				}
			}
			t.Event(0xC17E, uint64(w.failAt))
			return res
		}
		if err != nil {
			return fail("spurious-error", "Encode failed without a writer failure: "+err.Error())
		}
		if !bytes.Equal(w.got, want) {
			return fail("bytes-differ", fmt.Sprintf("writer received %q, Marshal gives %q", clip(string(w.got), 80), clip(string(want), 80)))
		}
	}
	t.Event(0xC17E, uint64(len(w.got)))
	c.inc("enc_values_checked")
	return res
}
