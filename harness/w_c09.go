//go:build verif

package main

import (
	"os"
	"encoding/json"
	"fmt"
	"reflect"
	"strings"

	"github.com/bytedance/sonic"
	"github.com/bytedance/sonic/internal/decoder/jitdec"
	"github.com/bytedance/sonic/internal/decoder/optdec"
	"github.com/bytedance/sonic/internal/encoder/vars"
	"github.com/bytedance/sonic/internal/simrt"
	"github.com/bytedance/sonic/option"
	atypes "github.com/bytedance/sonic/xverif/a/types"
	btypes "github.com/bytedance/sonic/xverif/b/types"
)

// C09: codec results never depend on history. One client drives the
// process-global state (program caches, loader module list, pools) through a
// history of Pretouch / PretouchMany / Marshal / Unmarshal calls; knobs: cache
// capacity, compile options, map-order permutations, pool decisions.

func init() { workloads["C09"] = &workload{run: runC09} }

func localT1() reflect.Type {
	type T struct {
		A int
		Z int
	}
	return reflect.TypeOf(T{})
}

func localT2() reflect.Type {
	type T struct {
		Z string
		A []int
	}
	return reflect.TypeOf(T{})
}

func localT3() reflect.Type {
	type T struct {
		P *RecT
		Z string `json:"A"`
	}
	return reflect.TypeOf(T{})
}

var c09Static = []reflect.Type{
	reflect.TypeOf(atypes.T{}), reflect.TypeOf(btypes.T{}), reflect.TypeOf(atypes.U{}), reflect.TypeOf(btypes.U{}),
	localT1(), localT2(), localT3(), tRec, reflect.TypeOf(DeepTop{}), reflect.TypeOf(DeepMid{}),
	reflect.TypeOf(c09NamedPtr{}), reflect.TypeOf([]c09LeafPtr(nil)),
}

// A DEFINED pointer type carries no methods: what it points to is decoded field by field even
// though *c09Leaf has an UnmarshalJSON (sonic issue 379) - at every compile depth.
type c09Leaf struct {
	N int
	S string
}

func (l *c09Leaf) UnmarshalJSON(b []byte) error {
	l.N, l.S = -1, "via (*c09Leaf).UnmarshalJSON: "+string(b)
	return nil
}

type c09LeafPtr *c09Leaf

type c09NamedPtr struct {
	L []c09LeafPtr
	M map[string]c09LeafPtr
	A [1]c09LeafPtr
}

// Per-call configurations: a cached program must not bake in what is a per-call option.
// (Index 0 is ConfigStd, the only one compared with encoding/json as well; all encoder
// configurations sort map keys so that outputs are comparable between executions.)
var c09EncCfgs = []sonic.API{
	sonic.ConfigStd,
	sonic.Config{SortMapKeys: true}.Froze(),
	sonic.Config{SortMapKeys: true, NoNullSliceOrMap: true}.Froze(),
	sonic.Config{SortMapKeys: true, EscapeHTML: true, CompactMarshaler: true, NoQuoteTextMarshaler: true}.Froze(),
	sonic.Config{}.Froze(), // c09EncUnsorted
}

const c09EncUnsorted = 4

type c09BothVal struct {
	V CbBoth
	L []CbBoth
}

type c09BothKey struct {
	M map[CbBoth]int
	T map[CbText]CbBoth
}
var c09DecCfgs = []sonic.API{
	sonic.ConfigStd,
	sonic.ConfigDefault,
	sonic.Config{CaseSensitive: true}.Froze(),
	sonic.Config{DisallowUnknownFields: true}.Froze(),
	sonic.Config{CopyString: true, UseNumber: true}.Froze(),
	sonic.Config{ValidateString: true}.Froze(),
}

type c09Op struct {
	Cfg   int
	Kind  int // 0 Marshal 1 Unmarshal 2 Pretouch 3 PretouchMany
	T     int
	V     reflect.Value
	Text  string
	Many  []int
	Ptr   []bool
	Opts  []option.CompileOption
	OptS  string
}

func (o c09Op) String() string {
	switch o.Kind {
	case 0:
		return fmt.Sprintf("Marshal(T%d,cfg%d)", o.T, o.Cfg)
	case 1:
		return fmt.Sprintf("Unmarshal(T%d,cfg%d)", o.T, o.Cfg)
	case 2:
		return fmt.Sprintf("Pretouch(T%d%s)", o.T, o.OptS)
	default:
		return fmt.Sprintf("PretouchMany(%v%s)", o.Many, o.OptS)
	}
}

// arg is what Marshal receives: the value, or a pointer to an addressable copy of it.
func (o *c09Op) arg() interface{} {
	if len(o.Ptr) > 0 && o.Ptr[0] {
		p := reflect.New(o.V.Type())
		p.Elem().Set(o.V)
		return p.Interface()
	}
	return o.V.Interface()
}

// DeepTop: structs nested beyond the default inline depth with a pointer-receiver
// marshaler at the bottom (the encoder's addressability flag must survive recursion
// records and Pretouch rounds).
type DeepD struct {
	M CbPtr
	P *CbPtr
	L []CbPtr
}
type DeepL struct{ D DeepD }
type DeepMid struct{ L DeepL }
type DeepTop struct {
	Mid DeepMid
	N   int
}

func c09Do(types []reflect.Type, o *c09Op) (res c08Res) {
	defer func() {
		if r := recover(); r != nil {
			res = c08Res{Panic: clip(fmt.Sprint(r), 120)}
		}
	}()
	switch o.Kind {
	case 0:
		b, err := c09EncCfgs[o.Cfg].Marshal(o.arg())
		out := string(b)
		if o.Cfg == c09EncUnsorted && err == nil {
			// map iteration order is random without SortMapKeys: compare modulo the order of
			// members (the unsorted encoding of map keys is a code path of its own)
			if s := sortedCanon(out); s != "<invalid>" {
				out = "sorted:" + s
			}
		}
		return c08Res{Out: out, Err: errStr(err)}
	case 1:
		p := reflect.New(types[o.T])
		err := c09DecCfgs[o.Cfg].Unmarshal([]byte(o.Text), p.Interface())
		return c08Res{Val: p.Interface(), Err: errStr(err)}
	case 2:
		ty := types[o.T]
		if len(o.Ptr) > 0 && o.Ptr[0] {
			ty = reflect.PtrTo(ty)
		}
		return c08Res{Err: errStr(sonic.Pretouch(ty, o.Opts...))}
	default:
		var err error
		for _, i := range o.Many {
			// sonic.Pretouch takes one type; the batch entry points are the internal PretouchMany
			_ = i
		}
		tys := make([]reflect.Type, len(o.Many))
		for k, i := range o.Many {
			tys[k] = types[i]
			if o.Ptr[k] {
				tys[k] = reflect.PtrTo(tys[k])
			}
		}
		err = sonic.PretouchMany(tys, o.Opts...)
		return c08Res{Err: errStr(err)}
	}
}

func runC09(c *Ctx) Result {
	t := c.T
	g := &gen{t: t}
	if c.IsRef {
		zooUniq = c.RefBase // generated field names continue where the parent's stood
	}
	zooBase := zooUniq
	z := &zoo{g: g, cb: t.Draw(simrt.Knobs, 3) == 0, maxDep: 2 + g.d(2), wide: t.Draw(simrt.Knobs, 2) == 0}
	capD, capE := c08Caps[t.Draw(simrt.Knobs, len(c08Caps))], c08Caps[t.Draw(simrt.Knobs, len(c08Caps))]
	jitdec.SimResetCache(capD)
	optdec.SimResetCache(capD)
	vars.SimResetCache(capE)
	simrt.PoolTape = t
	simrt.OrderTape = t
	defer func() { simrt.PoolTape, simrt.OrderTape = nil, nil }()

	// universe
	nDyn := 2 + g.d(7)
	if c.Tier == "thorough" && g.d(20) == 0 {
		nDyn = 40 + g.d(60)
	}
	var types []reflect.Type
	for i := 0; i < nDyn; i++ {
		if g.d(4) == 0 {
			types = append(types, z.Type(0))
		} else {
			types = append(types, z.Struct(0))
		}
	}
	for _, st := range c09Static {
		if g.d(2) == 0 {
			types = append(types, st)
		}
	}
	// near twins: the same layout with JSON names that differ only in letter case - two
	// distinct types whose lookup tables must not be confused (CaseSensitive tells them apart)
	twinOf := map[int]int{}
	for i, n := 0, len(types); i < n; i++ {
		if tw, ok := c09CaseTwin(types[i]); ok && g.d(3) == 0 {
			twinOf[i], twinOf[len(types)] = len(types), i
			types = append(types, tw)
		}
	}
	nOps := 3 + g.d(14)
	ops := make([]c09Op, nOps)
	for i := range ops {
		o := c09Op{Kind: []int{0, 0, 1, 1, 2, 3, 3}[g.d(7)], T: g.d(len(types))}
		if o.Kind >= 2 {
			if g.d(2) == 0 {
				n := 1 + g.d(3)
				o.Opts = append(o.Opts, option.WithCompileMaxInlineDepth(n))
				o.OptS += fmt.Sprintf(",inline=%d", n)
			}
			if g.d(2) == 0 {
				n := g.d(4)
				o.Opts = append(o.Opts, option.WithCompileRecursiveDepth(n))
				o.OptS += fmt.Sprintf(",rec=%d", n)
			}
			o.Ptr = []bool{g.d(4) == 0}
		}
		switch o.Kind {
		case 0:
			o.V = z.Value(types[o.T], 0)
			o.Ptr = []bool{g.d(2) == 0} // Marshal(&v): the value is addressable (matters for pointer-receiver marshalers)
			if g.d(3) == 0 {
				o.Cfg = g.d(len(c09EncCfgs))
			}
		case 1:
			v := z.Value(types[o.T], 0)
			tw, hasTwin := twinOf[o.T]
			if hasTwin && g.d(2) == 0 {
				v = z.Value(types[tw], 0) // keys spelled the twin's way
			}
			b, err := json.Marshal(v.Interface())
			if err != nil {
				o.Kind, o.V = 0, v
				break
			}
			o.Text = string(b)
			if g.d(3) == 0 {
				o.Cfg = g.d(len(c09DecCfgs))
				// what the per-call options are about: a key spelled in another case, an unknown member
				if i := strings.Index(o.Text, `{"`); i >= 0 && i+2 < len(o.Text) && g.d(2) == 0 {
					c := o.Text[i+2]
					if c >= 'a' && c <= 'z' {
						c -= 32
					} else if c >= 'A' && c <= 'Z' {
						c += 32
					}
					o.Text = o.Text[:i+2] + string(c) + o.Text[i+3:]
				}
				if strings.HasPrefix(o.Text, "{") && len(o.Text) > 2 && g.d(2) == 0 {
					o.Text = `{"zzunknown":[1,{"x":null}],` + o.Text[1:]
				}
			}
			if hasTwin && g.d(2) == 0 {
				o.Cfg = 2 + g.d(2) // CaseSensitive / DisallowUnknownFields
			}
		case 3:
			n := 1 + g.d(5)
			o.Ptr = nil
			for k := 0; k < n; k++ {
				o.Many = append(o.Many, g.d(len(types)))
				o.Ptr = append(o.Ptr, g.d(4) == 0)
			}
		}
		ops[i] = o
	}
	// scenario (a quarter of the runs): one callback type reached first in one POSITION and then
	// in another - as a value (its JSON marshaler applies) and as a map key (its text marshaler
	// applies, on the unsorted path) - by two different types; the second call is the one the
	// pristine process repeats
	scenario := -1
	if g.d(4) == 0 {
		first, second := len(types), len(types)+1
		types = append(types, reflect.TypeOf(c09BothVal{}), reflect.TypeOf(c09BothKey{}))
		if g.d(2) == 0 {
			first, second = second, first
		}
		ops[0] = c09Op{Kind: 0, T: first, V: z.Value(types[first], 0), Ptr: []bool{false}, Cfg: c09EncUnsorted}
		ops[1] = c09Op{Kind: 0, T: second, V: z.Value(types[second], 0), Ptr: []bool{g.d(2) == 0}, Cfg: c09EncUnsorted}
		scenario = 1
		c.inc("scenario_value_then_key_position")
	}
	var opS, typeS []string
	for _, o := range ops {
		opS = append(opS, o.String())
	}
	for _, ty := range types {
		typeS = append(typeS, clip(ty.String(), 80))
	}
	sample := map[string]interface{}{"types": typeS, "history": opS, "cache_cap_dec": capD, "cache_cap_enc": capE}
	res := Result{Sample: sample, Nontrivial: true}
	fail := func(sig, detail string) Result {
		res.Sig = "C09:" + sig
		res.Detail = detail + fmt.Sprintf(" | history=%v types=%v capD=%d capE=%d", opS, typeS, capD, capE)
		return res
	}

	if c.IsRef {
		// pristine reference process: nothing has happened here yet; execute the one call
		simrt.PoolTape, simrt.OrderTape = nil, nil
		if c.RefOp >= len(ops) {
			refAnswer("NO-SUCH-OP")
		}
		refAnswer(c09Canon(c09Do(types, &ops[c.RefOp])))
	}

	// run the history
	got := make([]c08Res, nOps)
	for i := range ops {
		got[i] = c09Do(types, &ops[i])
		t.Event(0xC09, uint64(len(got[i].Out))<<8|uint64(len(got[i].Err)))
	}
	if _, m := jitdec.SimCacheStats(); m > capD {
		c.inc("probe_decoder_cache_rehashed")
	}
	if _, m := vars.SimCacheStats(); m > capE {
		c.inc("probe_encoder_cache_rehashed")
	}
	c.add("fault_pool_miss", simrt.PoolStats.Miss)

	// oracle
	type pending struct {
		i   int
		ref c08Res
	}
	var suspects []pending
	for i := range ops {
		o := &ops[i]
		r := got[i]
		if r.Panic != "" {
			return fail("panic:"+c09KindName(o.Kind), fmt.Sprintf("op %d %s panicked: %s", i, o, r.Panic))
		}
		if o.Kind <= 1 && o.Cfg != 0 {
			continue // no encoding/json equivalent: the history-free comparison below decides alone
		}
		switch o.Kind {
		case 0:
			b, err := json.Marshal(o.arg())
			ref := c08Res{Out: string(b), Err: errStr(err)}
			if !c08Same(r, ref, false) {
				suspects = append(suspects, pending{i, ref})
			} else {
				c.inc("calls_checked")
			}
		case 1:
			p := reflect.New(types[o.T])
			err := json.Unmarshal([]byte(o.Text), p.Interface())
			ref := c08Res{Val: p.Interface(), Err: errStr(err)}
			if !c08Same(r, ref, false) {
				suspects = append(suspects, pending{i, ref})
			} else {
				c.inc("calls_checked")
			}
		default:
			if r.Err != "" {
				// Pretouch of a generated (encodable) type must not fail
				suspects = append(suspects, pending{i, c08Res{}})
			}
		}
	}
	// The property itself, directly: every codec call of the history is executed once more with
	// EMPTY program caches and pools (no history), each one after its own reset, and must give
	// what it gave inside the history. No reference implementation is involved here, so option
	// sets without an encoding/json equivalent (CaseSensitive ...) are covered too.
	simrt.PoolTape, simrt.OrderTape = nil, nil
	susp := map[int]c08Res{}
	for _, s := range suspects {
		susp[s.i] = s.ref
	}
	for i := range ops {
		o := &ops[i]
		if o.Kind > 1 {
			continue
		}
		simrt.ResetPools()
		jitdec.SimResetCache(4096)
		optdec.SimResetCache(4096)
		vars.SimResetCache(4096)
		alone := c09Do(types, o)
		if !c08Same(alone, got[i], true) {
			return fail("history-dependent:"+c09KindName(o.Kind), fmt.Sprintf("op %d %s gave %s after this history, but %s with empty caches", i, o, got[i], alone))
		}
		c.inc("calls_checked_vs_history_free")
		if ref, bad := susp[i]; bad {
			// identical with and without history, but different from encoding/json: outside the
			// subset where encoding/json is a reference (C01/C03 material) - counted only
			c.inc("harness_ref_disagrees_without_history")
			if noClip {
				fmt.Printf("REFDISAGREE %s %v: sonic %s json %s\n", o, types[o.T], alone, ref)
			}
		}
	}
	// ... and against state the resets above do not know about: one call of the history (chosen
	// by the tape) is executed by a fresh process of this binary, which rebuilds types and
	// operations from the same tape and runs only that call
	var cands []int
	for i := range ops {
		if ops[i].Kind <= 1 {
			cands = append(cands, i)
		}
	}
	var sharp []int // calls whose result hinges on per-type tables (exact-case lookups, unknown-field detection)
	for _, i := range cands {
		if ops[i].Kind == 1 && ops[i].Cfg >= 2 {
			sharp = append(sharp, i)
		}
	}
	if len(cands) > 0 && !c09NoPristine && t.Draw(simrt.Knobs, 2) == 0 {
		i := cands[t.Draw(simrt.Knobs, len(cands))]
		if len(sharp) > 0 && t.Draw(simrt.Knobs, 2) == 0 {
			i = sharp[t.Draw(simrt.Knobs, len(sharp))]
		}
		if scenario >= 0 {
			i = scenario
		}
		ans, err := pristine(c, "C09", i, zooBase)
		if err != nil {
			c.inc("harness_pristine_process_failed")
			fmt.Fprintln(os.Stderr, "C09: pristine reference process failed:", err)
		} else if mine := c09Canon(got[i]); ans != mine {
			return fail("differs-from-pristine-process:"+c09KindName(ops[i].Kind), fmt.Sprintf("op %d %s gave %s after this history (and again after resetting the known caches), but a fresh process answers %s", i, &ops[i], clip(mine, 300), clip(ans, 300)))
		} else {
			c.inc("calls_checked_vs_pristine_process")
		}
	}
	for _, s := range suspects {
		if ops[s.i].Kind > 1 {
			return fail("pretouch-failed:"+c09KindName(ops[s.i].Kind), fmt.Sprintf("op %d %s returned %s", s.i, &ops[s.i], got[s.i]))
		}
	}
	return res
}

func c09KindName(k int) string {
	return []string{"Marshal", "Unmarshal", "Pretouch", "PretouchMany"}[k]
}

var _ = strings.Repeat

// c09CaseTwin returns the struct type with the same fields whose JSON names have the case of
// their first letter flipped (ok=false when ty is not an unnamed struct or nothing changes).
func c09CaseTwin(ty reflect.Type) (reflect.Type, bool) {
	if ty.Kind() != reflect.Struct || ty.Name() != "" || ty.NumField() == 0 {
		return nil, false
	}
	changed := false
	fs := make([]reflect.StructField, ty.NumField())
	for i := range fs {
		f := ty.Field(i)
		tag, has := f.Tag.Lookup("json")
		name, rest := tag, ""
		if k := strings.IndexByte(tag, ','); k >= 0 {
			name, rest = tag[:k], tag[k:]
		}
		if tag == "-" || f.Anonymous || f.PkgPath != "" {
			fs[i] = f
			continue
		}
		if !has || name == "" {
			name = f.Name
		}
		b := []byte(name)
		if b[0] >= 'a' && b[0] <= 'z' {
			b[0] -= 32
			changed = true
		} else if b[0] >= 'A' && b[0] <= 'Z' {
			b[0] += 32
			changed = true
		}
		if strings.ContainsAny(string(b), "\"\\`") {
			fs[i] = f
			continue
		}
		f.Tag = reflect.StructTag(`json:"` + string(b) + rest + `"`)
		fs[i] = f
	}
	if !changed {
		return nil, false
	}
	defer func() { recover() }()
	return reflect.StructOf(fs), true
}

var c09NoPristine = os.Getenv("VERIF_NO_PRISTINE") != ""

// c09Canon renders a result so that two processes can compare it.
func c09Canon(r c08Res) string {
	v := "-"
	if r.Val != nil {
		v = deepShow(reflect.ValueOf(r.Val))
	}
	return "out=" + r.Out + "|err=" + r.Err + "|panic=" + r.Panic + "|val=" + v
}
