//go:build verif

package main

import (
	"encoding/base64"
	"encoding/json"
	"fmt"
	"os"
	"reflect"
	"runtime/debug"
	"strconv"
	"strings"

	"github.com/bytedance/sonic"
	"github.com/bytedance/sonic/ast"
	"github.com/bytedance/sonic/decoder"
	"github.com/bytedance/sonic/encoder"
	"github.com/bytedance/sonic/internal/decoder/optdec"
	"github.com/bytedance/sonic/internal/simrt"
	"github.com/bytedance/sonic/unquote"
	"github.com/bytedance/sonic/utf8"
)

// C05: results depend only on the input bytes; nothing outside the input is
// read. The simulated component is MEMORY: where the input lies and what
// follows it are decided by the environment in production and by the arena
// here (guard page right after the input / a plausible continuation after it).

func init() { workloads["C05"] = &workload{run: runC05, init: initC05} }

var c05Arena *arena
var c05Ctx *os.File
var c05Optdec = os.Getenv("SONIC_USE_OPTDEC") == "1"

// c05Call runs one entry point; a fault at the guard page becomes a result
// (debug.SetPanicOnFault turns the SIGSEGV raised inside the native routine
// into a recoverable panic: the worker survives and keeps its coverage).
func c05Call(e c05Entry, s string) (r string) {
	defer func() {
		if x := recover(); x != nil {
			r = "FAULT(" + clip(fmt.Sprint(x), 80) + ")"
		}
	}()
	return e.f(s)
}

func initC05(cfg map[string]string) {
	debug.SetPanicOnFault(true)
	c05Arena = newArena(16)
	if p := os.Getenv("VERIF_CTXFILE"); p != "" {
		c05Ctx, _ = os.OpenFile(p, os.O_CREATE|os.O_WRONLY, 0o644)
	}
}

// setCtx records what is about to run, so that a SIGSEGV can be attributed.
func setCtx(s string) {
	if c05Ctx != nil {
		var rec [160]byte
		for i := range rec {
			rec[i] = ' '
		}
		copy(rec[:], s)
		c05Ctx.WriteAt(rec[:], 0)
	}
}

type c05Entry struct {
	name string
	f    func(s string) string
}

type c05T struct {
	A int64   `json:"a"`
	B bool    `json:"b"`
	S string  `json:"s"`
	F float64 `json:"f"`
	L []int   `json:"l"`
	N *c05T   `json:"n"`
}

func errS(err error) string {
	if err == nil {
		return "<nil>"
	}
	return "ERR(" + err.Error() + ")"
}

// encoder side: the Go string (or byte slice) being MARSHALLED is the input whose placement varies
func c05Enc(v interface{}, api sonic.API) string {
	b, err := api.Marshal(v)
	return string(b) + " " + errS(err)
}

type c05Quoted struct {
	S string      `json:"s,string"`
	N json.Number `json:"n"`
}

type c05Typed struct {
	B  []byte            `json:"b"`
	N  json.Number       `json:"n"`
	M  map[string]string `json:"m"`
	Q  string            `json:"q,string"`
	QI int               `json:"qi,string"`
	A  []string          `json:"a"`
	K0 interface{}       `json:"k0"`
	K1 json.RawMessage   `json:"k1"`
}

// fields whose value is skipped rather than decoded (struct{} has nothing to decode into)
type c05Empty struct {
	A  struct{}  `json:"a"`
	B  int       `json:"b"`
	K0 struct{}  `json:"k0"`
	K1 *struct{} `json:"k1"`
}

var c05NoHTML = sonic.Config{SortMapKeys: true}.Froze()

var c05Entries = []c05Entry{
	{"Marshal(string)", func(s string) string { return c05Enc(s, c05NoHTML) }},
	{"ConfigStd.Marshal(string)", func(s string) string { return c05Enc(s, sonic.ConfigStd) }},
	{"ConfigStd.Marshal(map[string]string)", func(s string) string { return c05Enc(map[string]string{s: s}, sonic.ConfigStd) }},
	{"Marshal(quoted string field, json.Number)", func(s string) string { return c05Enc(&c05Quoted{S: s, N: json.Number(s)}, c05NoHTML) }},
	{"ConfigStd.Marshal([]byte)", func(s string) string { return c05Enc(unsafeBytes(s), sonic.ConfigStd) }},
	{"ConfigStd.Marshal(RawMessage)", func(s string) string { return c05Enc(json.RawMessage(unsafeBytes(s)), sonic.ConfigStd) }},
	{"Marshal(RawMessage,NoValidate)", func(s string) string {
		return c05Enc(json.RawMessage(unsafeBytes(s)), sonic.Config{NoValidateJSONMarshaler: true}.Froze())
	}},
	{"ast.NewString.MarshalJSON", func(s string) string {
		n := ast.NewString(s)
		b, err := n.MarshalJSON()
		return string(b) + " " + errS(err)
	}},
	{"UnmarshalString(typed destinations)", func(s string) string {
		var v c05Typed
		err := sonic.UnmarshalString(s, &v)
		return deepShow(reflect.ValueOf(v)) + " " + errS(err)
	}},
	{"ConfigStd.UnmarshalFromString(typed destinations)", func(s string) string {
		var v c05Typed
		err := sonic.ConfigStd.UnmarshalFromString(s, &v)
		return deepShow(reflect.ValueOf(v)) + " " + errS(err)
	}},
	{"UnmarshalString([]byte)", func(s string) string {
		var v []byte
		err := sonic.UnmarshalString(s, &v)
		return fmt.Sprintf("%q", v) + " " + errS(err)
	}},
	{"Decoder.DisallowUnknownFields(struct with empty-struct fields)", func(s string) string {
		var v c05Empty
		d := decoder.NewDecoder(s)
		d.DisallowUnknownFields()
		err := d.Decode(&v)
		return deepShow(reflect.ValueOf(v)) + " " + errS(err)
	}},
	{"UnmarshalString(json.Number)", func(s string) string {
		var v json.Number
		err := sonic.UnmarshalString(s, &v)
		return fmt.Sprintf("%q", string(v)) + " " + errS(err)
	}},
	{"UnmarshalString(map[int]int8)", func(s string) string {
		var v map[int]int8
		err := sonic.UnmarshalString(s, &v)
		return deepShow(reflect.ValueOf(v)) + " " + errS(err)
	}},
	{"UnmarshalString(map[string]string)", func(s string) string {
		var v map[string]string
		err := sonic.UnmarshalString(s, &v)
		return deepShow(reflect.ValueOf(v)) + " " + errS(err)
	}},
	{"ValidString", func(s string) string { return fmt.Sprint(sonic.ValidString(s)) }},
	{"Valid", func(s string) string { return fmt.Sprint(sonic.Valid(unsafeBytes(s))) }},
	{"UnmarshalString(interface)", func(s string) string {
		var v interface{}
		err := sonic.UnmarshalString(s, &v)
		b, _ := json.Marshal(v)
		return string(b) + " " + errS(err)
	}},
	{"UnmarshalString(struct)", func(s string) string {
		var v c05T
		err := sonic.UnmarshalString(s, &v)
		b, _ := json.Marshal(v)
		return string(b) + " " + errS(err)
	}},
	{"UnmarshalString(RawMessage)", func(s string) string {
		var v json.RawMessage
		err := sonic.UnmarshalString(s, &v)
		return string(v) + " " + errS(err)
	}},
	{"UnmarshalString(bool)", func(s string) string {
		var v bool
		err := sonic.UnmarshalString(s, &v)
		return fmt.Sprint(v) + " " + errS(err)
	}},
	{"UnmarshalString(float64)", func(s string) string {
		var v float64
		err := sonic.UnmarshalString(s, &v)
		return fmt.Sprint(v) + " " + errS(err)
	}},
	{"UnmarshalString(int64)", func(s string) string {
		var v int64
		err := sonic.UnmarshalString(s, &v)
		return fmt.Sprint(v) + " " + errS(err)
	}},
	{"UnmarshalString(string)", func(s string) string {
		var v string
		err := sonic.UnmarshalString(s, &v)
		return fmt.Sprintf("%q", v) + " " + errS(err)
	}},
	{"ConfigStd.UnmarshalFromString(interface)", func(s string) string {
		var v interface{}
		err := sonic.ConfigStd.UnmarshalFromString(s, &v)
		b, _ := json.Marshal(v)
		return string(b) + " " + errS(err)
	}},
	{"GetFromString()", func(s string) string {
		n, err := sonic.GetFromString(s)
		if err != nil {
			return errS(err)
		}
		r, err := n.Raw()
		return r + " " + errS(err)
	}},
	{"GetFromString(a,0)", func(s string) string {
		n, err := sonic.GetFromString(s, "a", 0)
		if err != nil {
			return errS(err)
		}
		r, err := n.Raw()
		return r + " " + errS(err)
	}},
	{"GetFromString(1)", func(s string) string {
		n, err := sonic.GetFromString(s, 1)
		if err != nil {
			return errS(err)
		}
		r, err := n.Raw()
		return r + " " + errS(err)
	}},
	{"Searcher{ValidateJSON:false}.GetByPath(k1)", func(s string) string {
		sr := ast.NewSearcher(s)
		sr.ValidateJSON = false
		n, err := sr.GetByPath("k1")
		if err != nil {
			return errS(err)
		}
		r, err := n.Raw()
		return r + " " + errS(err)
	}},
	{"ast.NewRaw.LoadAll+MarshalJSON", func(s string) string {
		n := ast.NewRaw(s)
		e1 := n.LoadAll()
		b, e2 := n.MarshalJSON()
		return string(b) + " " + errS(e1) + errS(e2)
	}},
	{"ast.NewRaw.Interface", func(s string) string {
		n := ast.NewRaw(s)
		v, err := n.Interface()
		b, _ := json.Marshal(v)
		return string(b) + " " + errS(err)
	}},
	{"decoder.Skip", func(s string) string {
		a, b := decoder.Skip(unsafeBytes(s))
		return fmt.Sprint(a, b)
	}},
	{"unquote.String", func(s string) string {
		r, err := unquote.String(s)
		return fmt.Sprintf("%q %d", r, int(err))
	}},
	{"encoder.Quote", func(s string) string { return encoder.Quote(s) }},
	{"encoder.HTMLEscape", func(s string) string { return string(encoder.HTMLEscape(nil, unsafeBytes(s))) }},
	{"utf8.ValidateString", func(s string) string { return fmt.Sprint(utf8.ValidateString(s)) }},
	{"utf8.CorrectWith", func(s string) string { return string(utf8.CorrectWith(nil, unsafeBytes(s), "?")) }},
	{"encoder.Valid", func(s string) string {
		ok, st := encoder.Valid(unsafeBytes(s))
		return fmt.Sprint(ok, st)
	}},
	{"ast.NewParser.Parse+LoadAll", func(s string) string {
		n, e := ast.NewParser(s).Parse()
		if e != 0 {
			return fmt.Sprint("parse error ", int(e))
		}
		e1 := n.LoadAll()
		b, e2 := n.MarshalJSON()
		return string(b) + " " + errS(e1) + errS(e2)
	}},
	{"ast.Loads", func(s string) string {
		_, v, err := ast.Loads(s)
		b, _ := json.Marshal(v)
		return string(b) + " " + errS(err)
	}},
	{"ast.NewSearcher.GetByPath()+Load", func(s string) string {
		sr := ast.NewSearcher(s)
		sr.ValidateJSON = false
		n, err := sr.GetByPath()
		if err != nil {
			return errS(err)
		}
		e1 := n.Load()
		v, e2 := n.Interface()
		b, _ := json.Marshal(v)
		return string(b) + " " + errS(e1) + errS(e2)
	}},
	{"ast.Preorder", func(s string) string {
		var v c05Visitor
		err := ast.Preorder(s, &v, nil)
		return v.sb.String() + " " + errS(err)
	}},
	{"ast.NewRaw.Get(k1).Index(0).Raw", func(s string) string {
		n := ast.NewRaw(s)
		r, err := n.Get("k1").Index(0).Raw()
		return r + " " + errS(err)
	}},
	{"ast.NewRaw.ForEach", func(s string) string {
		n := ast.NewRaw(s)
		var sb strings.Builder
		err := n.ForEach(func(p ast.Sequence, c *ast.Node) bool {
			r, e := c.Raw()
			sb.WriteString(r + errS(e) + ";")
			return true
		})
		return sb.String() + " " + errS(err)
	}},
	{"GetFromString(k1,1)+Interface", func(s string) string {
		n, err := sonic.GetFromString(s, "k1", 1)
		if err != nil {
			return errS(err)
		}
		v, err := n.Interface()
		b, _ := json.Marshal(v)
		return string(b) + " " + errS(err)
	}},
}

type c05Visitor struct{ sb strings.Builder }

func (v *c05Visitor) OnNull() error           { v.sb.WriteString("n;"); return nil }
func (v *c05Visitor) OnBool(b bool) error     { fmt.Fprintf(&v.sb, "b%v;", b); return nil }
func (v *c05Visitor) OnString(s string) error { fmt.Fprintf(&v.sb, "s%q;", s); return nil }
func (v *c05Visitor) OnInt64(i int64, n json.Number) error {
	fmt.Fprintf(&v.sb, "i%d/%s;", i, n)
	return nil
}
func (v *c05Visitor) OnFloat64(f float64, n json.Number) error {
	fmt.Fprintf(&v.sb, "f%v/%s;", f, n)
	return nil
}
func (v *c05Visitor) OnObjectBegin(c int) error  { v.sb.WriteString("{;"); return nil }
func (v *c05Visitor) OnObjectKey(k string) error { fmt.Fprintf(&v.sb, "k%q;", k); return nil }
func (v *c05Visitor) OnObjectEnd() error         { v.sb.WriteString("};"); return nil }
func (v *c05Visitor) OnArrayBegin(c int) error   { v.sb.WriteString("[;"); return nil }
func (v *c05Visitor) OnArrayEnd() error          { v.sb.WriteString("];"); return nil }

var c05Frags = []string{"t", "tr", "tru", "true", "n", "nu", "nul", "null", "f", "fa", "fal", "fals", "false",
	`"`, `"a`, `"abc\`, `"\u12`, `"\ud800`, `"\ud800\u`, `"\ud800\udc0`, "-", "1", "12", "1.", "1e", "1e+", "-0", "0.1",
	`{"a":{}}`, `{"a":{},"b":1}`, `{"k0":{}}`, `{"a":{"x":1}}`, `{"k1":{}}`, `{"a":[]}`, `{"b":2,"a":{} }`,
	`"123`, `"-4.5e3`, `{"12`, `{"-7`, `{"12"`, `{"a":"123`, `{"qi":"45`, `{"n":"6`, `{"n":"6.5`, `"12"`,
	"[", "[1", "[1,", `{"a"`, `{"a":`, `{"a":[`, " ", "", "[ ", "{", "{\n\t ", `{"a":[ `, `[[`, `[{`, `{"a":{`, "[1, 2 ", "[1,\n", `{"a": 1 `, `{"a":1,`, `{"a":1, `, `"abc" `, "1 ", "true ", "[1] ", "\t", " \n", "\xe2\x82", "\xff", "\xf0\x9f\x98", `\`, `\u`, `\u00`, `a\`, `<`, `&`, "\xe2\x80"}
var c05Conts = []string{"rue", "ull", "alse", `"`, `\"`, `\\`, "0123456789", "}", "]", "e5", ".5", "\x80\x80\x80", "      ", `"}`, `":1}`, "\x00\x00\x00\x00", "u0041", "dc00", `"]}`, ",1]", "ue}", "ll]"}

func c05Class(s string) string {
	t := strings.TrimRight(s, " \t\r\n")
	for _, lit := range []string{"true", "false", "null"} {
		for k := 1; k < len(lit); k++ {
			if strings.HasSuffix(t, lit[:k]) && (len(t) == k || strings.ContainsAny(t[len(t)-k-1:len(t)-k], " ,:[{\t\n")) {
				return "literal-prefix-at-end"
			}
		}
	}
	// a number token that is exactly "0" or "-0" as the very last bytes (no trailing space)
	if t == s {
		u := strings.TrimSuffix(t, "0")
		if u != t {
			u = strings.TrimSuffix(u, "-")
			if u == "" || strings.ContainsAny(u[len(u)-1:], " ,:[{\t\n") {
				return "lone-zero-at-end"
			}
		}
	}
	if len(t) > 0 {
		switch c := t[len(t)-1]; {
		case c >= '0' && c <= '9' || c == '-' || c == '.' || c == 'e' || c == 'E' || c == '+':
			return "number-at-end"
		case c == '\\':
			return "backslash-at-end"
		case c >= 0x80:
			return "high-byte-at-end"
		}
	}
	if strings.Count(t, `"`)%2 == 1 {
		return "open-string-at-end"
	}
	return "other"
}

func runC05(c *Ctx) Result {
	t := c.T
	g := &gen{t: t, o: genOpts{MaxDepth: 3, MaxWidth: 4, Escapes: true, Spaces: true, BigObject: true}}
	// input
	var in string
	switch g.d(7) {
	case 6: // members the typed destinations care about (base64, numbers as text, quoted fields), cut anywhere
		b64 := base64.StdEncoding.EncodeToString([]byte(strings.Repeat("sonic!", 8)[:1+g.d(48)]))
		if g.d(4) == 0 {
			b64 = strings.TrimRight(b64, "=") // malformed padding
		}
		num := g.num()
		if g.d(2) == 0 {
			num = `"` + num + `"` // json.Number accepts the quoted form
		}
		parts := []string{`"b":"` + b64 + `"`, `"n":` + num, `"m":{` + quoteJSON(g.str()) + `:` + quoteJSON(g.str()) + `}`,
			`"q":` + quoteJSON(quoteJSON(g.str())), `"qi":"` + strconv.Itoa(g.d(100000)-500) + `"`, `"a":[` + quoteJSON(g.str()) + `,` + quoteJSON(g.str()) + `]`,
			`"k0":` + g.Doc(), `"k1":` + g.Doc()}
		for i := len(parts) - 1; i > 0; i-- {
			j := g.d(i + 1)
			parts[i], parts[j] = parts[j], parts[i]
		}
		in = "{" + strings.Join(parts[:1+g.d(len(parts))], ",") + "}"
		if g.d(2) == 0 {
			in = in[:g.d(len(in)+1)]
		}
	case 0:
		in = c05Frags[g.d(len(c05Frags))]
	case 1: // valid document, then a fragment glued to it
		in = g.Doc()
		if g.d(2) == 0 {
			in = "[" + in + "," + c05Frags[g.d(len(c05Frags))]
		}
	case 2: // truncation of a valid document
		in = g.Doc()
		in = in[:g.d(len(in)+1)]
	case 3: // length biased to SIMD block boundaries
		base := g.Doc()
		want := []int{15, 16, 17, 31, 32, 33, 63, 64, 65, 127, 128, 129}[g.d(12)]
		if len(base) < want {
			in = `{"k1":"` + strings.Repeat("x", want) + `","a":[` + base + `]}`
			in = in[:want]
		} else {
			in = base[:want]
		}
	case 4: // string payloads for quote / unquote / utf8 / html
		in = strings.Repeat(genStrs[g.d(len(genStrs))], 1+g.d(5)) + c05Frags[g.d(len(c05Frags))]
		if g.d(3) == 0 {
			// dense in characters whose quoted form is 6 bytes (\u00XX) or that need HTML / UTF-8
			// repair: the output outgrows its buffer several times within one string
			dense := []string{"\x01", "a\x02\x03", "\x1f\"", "<&>", "\xe2\x80\xa8", "\xff", "\\\x00", "\x7f\x10\n"}[g.d(8)]
			in = strings.Repeat(dense, 1+g.d(60)) + in[:g.d(len(in)+1)]
		}
	default:
		in = g.Container()
		if g.d(3) == 0 {
			in = in[:g.d(len(in)+1)]
		}
	}
	if len(in) > 8*pageSize {
		in = in[:8*pageSize]
	}
	class := c05Class(in)
	ei := g.d(len(c05Entries))
	e := c05Entries[ei]
	gap := 0
	cont := c05Conts[g.d(len(c05Conts))]
	// placements: heap copy; arena with the guard page right after; arena with a hostile continuation
	heap := strings.Clone(in + "\x00")[:len(in)]
	// optdec parses a pooled private copy: its buffer geometry and leftovers are one more
	// "placement" (a fresh parser per call: capacity around len(in)+padding, spare bytes
	// holding what an earlier, longer document would have left there)
	geom := func() string {
		if !c05Optdec {
			return ""
		}
		capN, nodeCap := 8192, 4096
		switch g.d(4) {
		case 3: // the shipped sizes
			capN, nodeCap = 1<<20, 1<<16
		case 0:
			capN = len(in) - 8 + g.d(96)
			if capN < 0 {
				capN = 0
			}
		case 1:
			capN = []int{0, 1, 16, 64, 4096}[g.d(5)]
		}
		if g.d(3) == 0 {
			nodeCap = []int{64, 256, 1024}[g.d(3)]
		}
		junk := c05Conts[g.d(len(c05Conts))]
		simrt.ResetPools()
		optdec.SimParserGeometry(capN, []byte(junk), nodeCap)
		c.inc("knob_optdec_parser_geometry")
		return fmt.Sprintf(" [parser buffer cap=%d leftovers=%q nodes=%d]", capN, junk, nodeCap)
	}
	geo0 := geom()
	sample := map[string]interface{}{"entry": e.name, "input": clip(in, 120), "len": len(in), "class": class, "continuation": cont}
	res := Result{Sample: sample, Nontrivial: len(in) > 0}
	sigBase := e.name + ":" + class
	r0 := c05Call(e, heap)
	t.Event(0xC05, uint64(ei)<<16|uint64(len(in)))
	_ = simrt.Ops
	// 1. a plausible continuation after the input (the process survives an over-read here)
	gap = 1 + g.d(48)
	setCtx("C05:crash:" + sigBase + fmt.Sprintf(" | input=%q len=%d gap=%d cont=%q", clip(in, 60), len(in), gap, cont))
	b := c05Arena.placeString(in, gap, []byte(cont))
	geo2 := geom()
	r2 := c05Call(e, b)
	c.inc("fault_hostile_continuation")
	if r0 != r2 {
		setCtx("")
		res.Sig = "C05:result-depends-on-what-follows-the-input:" + sigBase
		res.Detail = fmt.Sprintf("%s(%q): %s on a heap copy%s, %s with the bytes %q after the input%s", e.name, clip(in, 100), clip(r0, 160), geo0, clip(r2, 160), cont, geo2)
		return res
	}
	// 2. the page after the input is unmapped
	setCtx("C05:crash-at-guard-page:" + sigBase + fmt.Sprintf(" | input=%q len=%d", clip(in, 60), len(in)))
	a := c05Arena.placeString(in, 0, []byte{0})
	geo1 := geom()
	r1 := c05Call(e, a)
	setCtx("")
	c.inc("fault_guard_page_after_input")
	if r0 != r1 {
		res.Sig = "C05:result-depends-on-placement:" + sigBase
		if strings.HasPrefix(r1, "FAULT(") {
			res.Sig = "C05:read-past-end-of-input:" + sigBase
		}
		res.Detail = fmt.Sprintf("%s(%q): %s on a heap copy%s, %s at the end of mapped memory%s", e.name, clip(in, 100), clip(r0, 160), geo0, clip(r1, 160), geo1)
	}
	return res
}
