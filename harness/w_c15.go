//go:build verif

package main

import (
	"encoding/json"
	"fmt"
	"sort"
	"strconv"
	"strings"

	"github.com/bytedance/sonic/ast"
	"github.com/bytedance/sonic/internal/simrt"
)

// C15: ast.Node behaves like a plain ordered tree; lazy loading is
// unobservable. Seeded histories of reads and mutations, with forced
// representation changes (Load, LoadAll, Raw, MarshalJSON, Interface, full
// iteration, Get of a missing key ...) injected at arbitrary points, run on
// three differently represented nodes (lazy raw / LoadAll'ed / built with
// constructors) and on a reference model written from the documentation
// (DESIGN Appendix A).

func init() { workloads["C15"] = &workload{run: runC15} }

// ---- model operations on JV ('y' = opaque V_ANY leaf holding canonical JSON in S)

func (v *JV) isCont() bool { return v != nil && (v.K == 'a' || v.K == 'o') }

func (v *JV) child(p interface{}) *JV {
	switch x := p.(type) {
	case string:
		if v.K != 'o' {
			return nil
		}
		return v.get(x)
	case int:
		if v.K == 'a' {
			if x >= 0 && x < len(v.Arr) {
				return v.Arr[x]
			}
		} else if v.K == 'o' {
			if x >= 0 && x < len(v.Obj) {
				return v.Obj[x].Val
			}
		}
	}
	return nil
}

func (v *JV) at(path []interface{}) *JV {
	for _, p := range path {
		if v == nil {
			return nil
		}
		v = v.child(p)
	}
	return v
}

func (v *JV) n() int {
	if v.K == 'a' {
		return len(v.Arr)
	}
	return len(v.Obj)
}

// canonAny: canonical rendering where 'y' leaves print their JSON.
func (v *JV) canonY() string {
	if v == nil {
		return "<none>"
	}
	switch v.K {
	case 'y':
		if pv, err := parseJV(v.S); err == nil {
			return pv.canonY()
		}
		return "<invalid-any>"
	case 'a':
		var p []string
		for _, e := range v.Arr {
			p = append(p, e.canonY())
		}
		return "[" + strings.Join(p, ",") + "]"
	case 'o':
		var p []string
		for _, e := range v.Obj {
			p = append(p, strconv.Quote(e.Key)+":"+e.Val.canonY())
		}
		return "{" + strings.Join(p, ",") + "}"
	}
	return "json:" + v.canon()
}

// canonNode renders what an implementation node currently denotes, in the
// same canonical form (via MarshalJSON -> ordered parse).
func canonNode(n *ast.Node) string {
	if n == nil || !n.Exists() {
		return "<none>"
	}
	if err := n.Check(); err != nil {
		return "<error>"
	}
	b, err := n.MarshalJSON()
	if err != nil {
		return "<marshal-error>"
	}
	v, err := parseJV(string(b))
	if err != nil {
		return "<invalid-json:" + string(b) + ">"
	}
	return v.canonY()
}

func (v *JV) sortKeys(recurse bool) {
	sort.SliceStable(v.Obj, func(i, j int) bool { return v.Obj[i].Key < v.Obj[j].Key })
	if recurse {
		for _, p := range v.Obj {
			p.Val.sortScan(recurse)
		}
	}
}

// the scanner used by sortKeys(recurse): objects are sorted, arrays are descended
func (v *JV) sortScan(recurse bool) {
	switch v.K {
	case 'o':
		v.sortKeys(recurse)
	case 'a':
		for _, e := range v.Arr {
			e.sortScan(recurse)
		}
	}
}

// SortKeys as documented/implemented at the API level (DESIGN Appendix A)
func (v *JV) apiSortKeys(recurse bool) {
	switch v.K {
	case 'o':
		v.sortKeys(recurse)
	case 'a':
		for _, e := range v.Arr {
			if e.K == 'a' || e.K == 'o' {
				e.apiSortKeys(recurse)
			}
		}
	}
}

// ---- building an implementation node from the model with constructors

func buildNode(v *JV) ast.Node {
	switch v.K {
	case 'n':
		return ast.NewNull()
	case 't':
		return ast.NewBool(true)
	case 'f':
		return ast.NewBool(false)
	case 's':
		return ast.NewString(v.S)
	case '#':
		return ast.NewNumber(v.S)
	case 'a':
		l := make([]ast.Node, len(v.Arr))
		for i, e := range v.Arr {
			l[i] = buildNode(e)
		}
		return ast.NewArray(l)
	case 'o':
		l := make([]ast.Pair, len(v.Obj))
		for i, p := range v.Obj {
			l[i] = ast.NewPair(p.Key, buildNode(p.Val))
		}
		return ast.NewObject(l)
	}
	return ast.NewNull()
}

// ---- operations

type c15Op struct {
	Kind int
	Path []interface{}
	Key  string
	I, J int
	Val  string // JSON text of a new child
	Raw  bool   // insert as raw node (lazily parsed later) or as constructed node
	Rec  bool
	Any  interface{}
	Conv int // which conversion "Interface" stands for
}

var c15ConvNames = []string{"Interface", "InterfaceUseNumber", "InterfaceUseNode", "Map/Array", "MapUseNumber/ArrayUseNumber", "MapUseNode/ArrayUseNode"}

// c15Convert is one of the conversions to Go values; all of them must describe the same tree.
func c15Convert(t *ast.Node, conv int) (interface{}, error) {
	ty := t.TypeSafe()
	// by-value children: render each through its own MarshalJSON. A by-value copy of a
	// partially parsed child shares its parse stack with the original (known finding F14):
	// such a child is read through the parent instead, except in the runs that read lazy
	// copies on purpose (classified by the exact precondition).
	render := func(copyOf ast.Node, viaParent *ast.Node) ([]byte, error) {
		nn := copyOf
		if _, lazy, _ := ast.SimState(&nn); lazy {
			if !c15ReadLazyCopies {
				return viaParent.MarshalJSON()
			}
			c15CopiedLazy = true
		}
		return nn.MarshalJSON()
	}
	nodes := func(v interface{}) (interface{}, error) {
		switch x := v.(type) {
		case map[string]ast.Node:
			m := map[string]json.RawMessage{}
			for k, n := range x {
				b, err := render(n, t.Get(k))
				if err != nil {
					return nil, err
				}
				m[k] = b
			}
			return m, nil
		case []ast.Node:
			a := []json.RawMessage{}
			for i, n := range x {
				b, err := render(n, t.Index(i))
				if err != nil {
					return nil, err
				}
				a = append(a, b)
			}
			return a, nil
		case ast.Node:
			b, err := x.MarshalJSON()
			return json.RawMessage(b), err
		}
		return v, nil
	}
	switch conv {
	case 1:
		return t.InterfaceUseNumber()
	case 2:
		v, err := t.InterfaceUseNode()
		if err != nil {
			return nil, err
		}
		return nodes(v)
	case 3, 4, 5:
		switch ty {
		case ast.V_OBJECT:
			switch conv {
			case 3:
				return t.Map()
			case 4:
				return t.MapUseNumber()
			}
			v, err := t.MapUseNode()
			if err != nil {
				return nil, err
			}
			return nodes(v)
		case ast.V_ARRAY:
			switch conv {
			case 3:
				return t.Array()
			case 4:
				return t.ArrayUseNumber()
			}
			v, err := t.ArrayUseNode()
			if err != nil {
				return nil, err
			}
			return nodes(v)
		}
	}
	return t.Interface()
}

var c15Names = []string{"Get", "Index", "IndexPair", "Len", "Values", "Properties", "ForEach", "Interface", "MarshalJSON",
	"Set", "SetByIndex", "SetAny", "Add", "Unset", "UnsetByIndex", "Pop", "Move", "SortKeys",
	"Load", "LoadAll", "Raw", "Check/Valid/Exists", "Get(missing)"}

func (o c15Op) String() string {
	s := c15Names[o.Kind] + showPath(o.Path)
	switch o.Kind {
	case 0, 13, 22:
		s += fmt.Sprintf("(%q)", o.Key)
	case 1, 2, 14:
		s += fmt.Sprintf("(%d)", o.I)
	case 9:
		s += fmt.Sprintf("(%q,%s raw=%v)", o.Key, o.Val, o.Raw)
	case 10:
		s += fmt.Sprintf("(%d,%s raw=%v)", o.I, o.Val, o.Raw)
	case 11:
		s += fmt.Sprintf("(%q,%v)", o.Key, o.Any)
	case 12:
		s += fmt.Sprintf("(%s raw=%v)", o.Val, o.Raw)
	case 16:
		s += fmt.Sprintf("(dst=%d,src=%d)", o.I, o.J)
	case 17:
		s += fmt.Sprintf("(%v)", o.Rec)
	case 7:
		s += "(" + c15ConvNames[o.Conv] + ")"
	}
	return s
}

func errc(err error) string {
	if err == nil {
		return "ok"
	}
	return "err"
}

func newChild(o c15Op) ast.Node {
	if o.Raw {
		return ast.NewRaw(o.Val)
	}
	v, _ := parseJV(o.Val)
	return buildNode(v)
}

// applyModel applies o to the model and returns the expected observation.
// holes reports whether logical and physical indexes may differ afterwards.
func applyModel(root *JV, o c15Op, holes *bool) string {
	t := root.at(o.Path)
	if t == nil {
		return "<no-target>"
	}
	switch o.Kind {
	case 0, 22: // Get
		if t.K != 'o' {
			return "<error>"
		}
		return t.get(o.Key).canonY()
	case 1: // Index
		if !t.isCont() {
			return "<error>"
		}
		return t.child(o.I).canonY()
	case 2: // IndexPair
		if t.K != 'o' || o.I < 0 || o.I >= len(t.Obj) {
			return "<nil>"
		}
		return strconv.Quote(t.Obj[o.I].Key) + ":" + t.Obj[o.I].Val.canonY()
	case 3: // Len
		switch t.K {
		case 'a', 'o':
			return fmt.Sprint(t.n(), " ok")
		case 'n':
			return "0 ok"
		case 's':
			return "<skip>"
		default:
			return "0 err"
		}
	case 4: // Values
		if t.K != 'a' {
			return "err"
		}
		var p []string
		for _, e := range t.Arr {
			p = append(p, e.canonY())
		}
		return strings.Join(p, ";")
	case 5: // Properties
		if t.K != 'o' {
			return "err"
		}
		var p []string
		for _, e := range t.Obj {
			p = append(p, strconv.Quote(e.Key)+":"+e.Val.canonY())
		}
		return strings.Join(p, ";")
	case 6: // ForEach
		var p []string
		switch t.K {
		case 'a':
			for _, e := range t.Arr {
				p = append(p, e.canonY())
			}
		case 'o':
			for _, e := range t.Obj {
				p = append(p, strconv.Quote(e.Key)+":"+e.Val.canonY())
			}
		default:
			p = append(p, "self:"+t.canonY())
		}
		return strings.Join(p, ";")
	case 7, 8, 20: // Interface / MarshalJSON / Raw: the value itself
		return t.canonY()
	case 9: // Set
		nv, _ := parseJV(o.Val)
		switch t.K {
		case 'n':
			*t = JV{K: 'o', Obj: []JP{{o.Key, nv}}}
			return "false ok"
		case 'o':
			for i := range t.Obj {
				if t.Obj[i].Key == o.Key {
					t.Obj[i].Val = nv
					return "true ok"
				}
			}
			t.Obj = append(t.Obj, JP{o.Key, nv})
			return "false ok"
		}
		return "false err"
	case 10: // SetByIndex
		nv, _ := parseJV(o.Val)
		if o.I == 0 && t.K == 'n' {
			*t = JV{K: 'a', Arr: []*JV{nv}}
			return "false ok"
		}
		if !t.isCont() {
			return "false err"
		}
		if o.I < 0 || o.I >= t.n() {
			return "false err"
		}
		if t.K == 'a' {
			t.Arr[o.I] = nv
		} else {
			t.Obj[o.I].Val = nv
		}
		return "true ok"
	case 11: // SetAny
		b, _ := json.Marshal(o.Any)
		nv := &JV{K: 'y', S: string(b)}
		switch t.K {
		case 'n':
			*t = JV{K: 'o', Obj: []JP{{o.Key, nv}}}
			return "false ok"
		case 'o':
			for i := range t.Obj {
				if t.Obj[i].Key == o.Key {
					t.Obj[i].Val = nv
					return "true ok"
				}
			}
			t.Obj = append(t.Obj, JP{o.Key, nv})
			return "false ok"
		}
		return "false err"
	case 12: // Add
		nv, _ := parseJV(o.Val)
		switch t.K {
		case 'n':
			*t = JV{K: 'a', Arr: []*JV{nv}}
			return "ok"
		case 'a':
			t.Arr = append(t.Arr, nv)
			return "ok"
		}
		return "err"
	case 13: // Unset
		if t.K != 'o' {
			return "false err"
		}
		for i := range t.Obj {
			if t.Obj[i].Key == o.Key {
				t.Obj = append(t.Obj[:i:i], t.Obj[i+1:]...)
				*holes = true
				return "true ok"
			}
		}
		return "false ok"
	case 14: // UnsetByIndex
		if !t.isCont() {
			return "false err"
		}
		if o.I < 0 || o.I >= t.n() {
			return "false err"
		}
		if t.K == 'a' {
			t.Arr = append(t.Arr[:o.I:o.I], t.Arr[o.I+1:]...)
		} else {
			t.Obj = append(t.Obj[:o.I:o.I], t.Obj[o.I+1:]...)
		}
		*holes = true
		return "true ok"
	case 15: // Pop
		switch t.K {
		case 'a':
			if len(t.Arr) > 0 {
				t.Arr = t.Arr[:len(t.Arr)-1]
			}
			return "ok"
		case 'o':
			if len(t.Obj) > 0 {
				t.Obj = t.Obj[:len(t.Obj)-1]
			}
			return "ok"
		}
		return "err"
	case 16: // Move(dst, src)
		if t.K != 'a' {
			return "err"
		}
		dst, src := o.I, o.J
		if dst == src || dst < 0 || src < 0 || dst >= len(t.Arr) || src >= len(t.Arr) {
			return "ok"
		}
		e := t.Arr[src]
		if src < dst {
			copy(t.Arr[src:dst], t.Arr[src+1:dst+1])
		} else {
			copy(t.Arr[dst+1:src+1], t.Arr[dst:src])
		}
		t.Arr[dst] = e
		return "ok"
	case 17: // SortKeys
		if t.K == 'y' {
			return "<skip>"
		}
		t.apiSortKeys(o.Rec)
		return "ok"
	case 18, 19, 21: // Load / LoadAll / Check+Valid+Exists: no observable effect
		return "ok"
	}
	return "?"
}

// applyImpl applies o to an implementation tree and returns the observation.
func applyImpl(root *ast.Node, o c15Op, holes bool) (out string) {
	defer func() {
		if r := recover(); r != nil {
			out = "PANIC(" + clip(fmt.Sprint(r), 100) + ")"
		}
	}()
	t := root
	if len(o.Path) > 0 {
		t = root.GetByPath(o.Path...)
	}
	if t == nil || !t.Exists() || t.Check() != nil {
		return "<no-target>"
	}
	switch o.Kind {
	case 0, 22:
		n := t.Get(o.Key)
		if n != nil && n.Check() != nil && n.Exists() {
			return "<error>"
		}
		if t.TypeSafe() != ast.V_OBJECT {
			return "<error>"
		}
		return canonNode(n)
	case 1:
		if ty := t.TypeSafe(); ty != ast.V_OBJECT && ty != ast.V_ARRAY {
			return "<error>"
		}
		return canonNode(t.Index(o.I))
	case 2:
		p := t.IndexPair(o.I)
		if p == nil {
			return "<nil>"
		}
		return strconv.Quote(p.Key) + ":" + canonNode(&p.Value)
	case 3:
		if t.TypeSafe() == ast.V_STRING {
			return "<skip>"
		}
		n, err := t.Len()
		// a raw node is parsed lazily by Len itself: look at the state Len left behind
		_, c15LenOnLazy, _ = ast.SimState(t)
		return fmt.Sprint(n, " ", errc(err))
	case 4:
		it, err := t.Values()
		if err != nil {
			return "err"
		}
		var p []string
		var v ast.Node
		for k := 0; it.Next(&v); k++ {
			vv := v
			if _, lazy, _ := ast.SimState(&vv); lazy && !c15ReadLazyCopies {
				// a by-value copy of a partially parsed child shares its parse stack with the
				// original (known finding F14): read this child through the parent instead
				p = append(p, canonNode(t.Index(k)))
				continue
			} else if lazy {
				c15CopiedLazy = true
			}
			p = append(p, canonNode(&vv))
		}
		return strings.Join(p, ";")
	case 5:
		it, err := t.Properties()
		if err != nil {
			return "err"
		}
		var p []string
		var v ast.Pair
		for k := 0; it.Next(&v); k++ {
			vv := v
			if _, lazy, _ := ast.SimState(&vv.Value); lazy && !c15ReadLazyCopies {
				p = append(p, strconv.Quote(vv.Key)+":"+canonNode(t.Index(k)))
				continue
			} else if lazy {
				c15CopiedLazy = true
			}
			p = append(p, strconv.Quote(vv.Key)+":"+canonNode(&vv.Value))
		}
		return strings.Join(p, ";")
	case 6:
		var p []string
		err := t.ForEach(func(path ast.Sequence, node *ast.Node) bool {
			if path.Key != nil {
				p = append(p, strconv.Quote(*path.Key)+":"+canonNode(node))
			} else if path.Index >= 0 {
				p = append(p, canonNode(node))
			} else {
				p = append(p, "self:"+canonNode(node))
			}
			return true
		})
		if err != nil {
			return "err"
		}
		return strings.Join(p, ";")
	case 7:
		v, err := c15Convert(t, o.Conv)
		if err != nil {
			return "<interface-error>"
		}
		b, err := json.Marshal(v)
		if err != nil {
			return "<marshal-error>"
		}
		// Interface loses key order: compare order-insensitively
		return "sorted:" + sortedCanon(string(b))
	case 8:
		return canonNode(t)
	case 20:
		r, err := t.Raw()
		if err != nil {
			return "<raw-error>"
		}
		v, err := parseJV(r)
		if err != nil {
			return "<invalid-json:" + r + ">"
		}
		return v.canonY()
	case 9:
		ex, err := t.Set(o.Key, newChild(o))
		return fmt.Sprint(ex, " ", errc(err))
	case 10:
		ex, err := t.SetByIndex(o.I, newChild(o))
		return fmt.Sprint(ex, " ", errc(err))
	case 11:
		ex, err := t.SetAny(o.Key, o.Any)
		return fmt.Sprint(ex, " ", errc(err))
	case 12:
		return errc(t.Add(newChild(o)))
	case 13:
		ex, err := t.Unset(o.Key)
		return fmt.Sprint(ex, " ", errc(err))
	case 14:
		ex, err := t.UnsetByIndex(o.I)
		return fmt.Sprint(ex, " ", errc(err))
	case 15:
		return errc(t.Pop())
	case 16:
		return errc(t.Move(o.I, o.J))
	case 17:
		return errc(t.SortKeys(o.Rec))
	case 18:
		t.Load()
		return "ok"
	case 19:
		t.LoadAll()
		return "ok"
	case 21:
		t.Check()
		t.Valid()
		t.Exists()
		return "ok"
	}
	return "?"
}

func sortedCanon(text string) string {
	var v interface{}
	if err := json.Unmarshal([]byte(text), &v); err != nil {
		return "<invalid>"
	}
	b, _ := json.Marshal(v) // encoding/json sorts map keys
	return string(b)
}

func (v *JV) sortedCanonModel() string {
	var sb strings.Builder
	v.writeY(&sb)
	return "sorted:" + sortedCanon(sb.String())
}

func (v *JV) writeY(sb *strings.Builder) {
	switch v.K {
	case 'y':
		sb.WriteString(v.S)
	case 'a':
		sb.WriteByte('[')
		for i, e := range v.Arr {
			if i > 0 {
				sb.WriteByte(',')
			}
			e.writeY(sb)
		}
		sb.WriteByte(']')
	case 'o':
		sb.WriteByte('{')
		for i, p := range v.Obj {
			if i > 0 {
				sb.WriteByte(',')
			}
			b, _ := json.Marshal(p.Key)
			sb.Write(b)
			sb.WriteByte(':')
			p.Val.writeY(sb)
		}
		sb.WriteByte('}')
	default:
		sb.WriteString(v.text())
	}
}

// c15ReadLazyCopies: in a share of the runs the iterator's by-value copies are read even
// when the copied child is partially parsed; c15CopiedLazy records that it happened.
var c15ReadLazyCopies, c15CopiedLazy bool

// c15LenOnLazy: the node Len was just called on was partially parsed (exact precondition of F8)
var c15LenOnLazy bool

var c15Vals = []string{`1`, `"s"`, `null`, `{"n":1,"m":[true]}`, `[1,{"z":2}]`, `true`, `{}`, `[]`, `-2.5`, `{"b":1,"a":2}`}
var c15Anys = []interface{}{5, "any", []int{1, 2}, map[string]interface{}{"x": 1.5}, nil, true}

func runC15(c *Ctx) Result {
	t := c.T
	dup := t.Draw(simrt.Knobs, 6) == 0 && c.Cfg["nodup"] == ""
	g := &gen{t: t, o: genOpts{MaxDepth: 3, MaxWidth: 5, Escapes: true, Spaces: true, BigObject: true, BigArray: true, DupKeys: dup}}
	doc := g.Container()
	model, err := parseJV(doc)
	if err != nil {
		return Result{}
	}
	// three representations
	lazy := ast.NewRaw(doc)
	loaded := ast.NewRaw(doc)
	loaded.LoadAll()
	built := buildNode(model)
	impls := []*ast.Node{&lazy, &loaded, &built}
	implNames := []string{"lazy(NewRaw)", "NewRaw+LoadAll", "constructors"}

	c15ReadLazyCopies = t.Draw(simrt.Knobs, 8) == 0
	c15CopiedLazy = false
	nOps := 1 + g.d(12)
	pendingKnown := ""
	type c15Grave struct {
		Path []interface{}
		Key  string
	}
	var graves []c15Grave
	var holed [][]interface{}
	var hist []string
	holes := false
	sample := map[string]interface{}{"doc": clip(doc, 160), "dup_keys": dup}
	res := Result{Sample: sample, Nontrivial: true}
	fail := func(sig, detail string) Result {
		if c15CopiedLazy {
			// exact precondition of F14 was met earlier in this history
			sig = "copy-of-lazy-child-read-through-iterator"
		}
		res.Sig = "C15:" + sig
		res.Detail = detail + fmt.Sprintf(" | doc=%q history=%v", clip(doc, 200), hist)
		sample["history"] = hist
		return res
	}
	for k := 0; k < nOps; k++ {
		// target: a path of the model (containers preferred)
		var all [][]interface{}
		model.pathsY(nil, &all)
		var conts, usable [][]interface{}
		for _, p := range all {
			if n := model.at(p); n.isCont() {
				conts = append(conts, p)
				usable = append(usable, p)
			} else if n != nil && n.K != 'y' {
				usable = append(usable, p) // V_ANY leaves only support Interface/MarshalJSON: never a target
			}
		}
		all = usable
		var path []interface{}
		if len(conts) > 0 && g.d(5) != 0 {
			path = conts[g.d(len(conts))]
		} else {
			path = all[g.d(len(all))]
		}
		tgt := model.at(path)
		o := c15Op{Kind: g.d(len(c15Names)), Path: path}
		nn := 0
		if tgt.isCont() {
			nn = tgt.n()
		}
		o.I = g.d(nn+2) - 0
		if g.d(8) == 0 {
			o.I = nn + 1 + g.d(3)
		}
		o.J = g.d(nn + 1)
		if o.Kind == 16 {
			// Move: the documentation says nothing about out-of-range arguments (the
			// implementation ignores them, except in the presence of unset children):
			// only in-range arguments are generated, the model must not demand more
			if nn == 0 {
				o.Kind = 8
			} else {
				o.I, o.J = g.d(nn), g.d(nn)
			}
		}
		o.Key = genKeys[g.d(len(genKeys))]
		if tgt.K == 'o' && len(tgt.Obj) > 0 && g.d(3) != 0 {
			o.Key = tgt.Obj[g.d(len(tgt.Obj))].Key
		}
		if o.Kind == 22 {
			o.Key = "missing\x01key"
		}
		o.Val = c15Vals[g.d(len(c15Vals))]
		o.Raw = g.d(2) == 0
		o.Rec = g.d(2) == 0
		o.Any = c15Anys[g.d(len(c15Anys))]
		if o.Kind == 7 {
			o.Conv = g.d(len(c15ConvNames))
		}
		if dup && o.Kind == 7 {
			o.Kind = 8 // Interface on duplicate keys has no single defined answer
		}
		// a removal is sometimes followed by Pop on the same object (trailing holes are stripped
		// and the storage shrinks below slots the key index may still mention)
		if len(graves) > 0 && g.d(10) == 0 {
			gr := graves[len(graves)-1]
			if tv := model.at(gr.Path); tv != nil && tv.K == 'o' {
				o.Path, o.Kind = gr.Path, 15
			}
		}
		// revisit keys that were removed earlier (removal followed by lookup / re-insertion
		// of the SAME key is where soft removal, the key index and lazy state meet)
		if len(graves) > 0 && g.d(4) == 0 {
			gr := graves[g.d(len(graves))]
			if tv := model.at(gr.Path); tv != nil && tv.K == 'o' {
				o.Path, o.Key = gr.Path, gr.Key
				o.Kind = []int{9, 0, 13, 11, 9, 0}[g.d(6)]
			}
		}
		// arrays that had an element removed (a hole in the chunk list): index translation in
		// Move / Index / SetByIndex / Pop / Add / iteration is exercised right there
		if len(holed) > 0 && g.d(5) == 0 {
			hp := holed[g.d(len(holed))]
			if tv := model.at(hp); tv != nil && tv.K == 'a' && len(tv.Arr) > 0 {
				o.Path = hp
				o.Kind = []int{16, 16, 16, 1, 4, 10, 15, 12, 14, 6}[g.d(10)]
				o.I, o.J = g.d(len(tv.Arr)), g.d(len(tv.Arr))
			}
		}
		if tv := model.at(o.Path); tv != nil && tv.K == 'a' && o.Kind == 14 && o.I >= 0 && o.I < len(tv.Arr)-1 {
			holed = append(holed, o.Path)
		}
		if tv := model.at(o.Path); tv != nil && tv.K == 'o' {
			switch o.Kind {
			case 13:
				graves = append(graves, c15Grave{o.Path, o.Key})
			case 14:
				if o.I >= 0 && o.I < len(tv.Obj) {
					graves = append(graves, c15Grave{o.Path, tv.Obj[o.I].Key})
				}
			}
		}
		hist = append(hist, o.String())
		want := applyModel(model, o, &holes)
		if o.Kind == 7 && want != "<no-target>" {
			if tv := model.at(o.Path); tv != nil {
				want = tv.sortedCanonModel()
			}
		}
		t.Event(0xC15, uint64(o.Kind))
		if want == "<skip>" {
			continue
		}
		for i, im := range impls {
			got := applyImpl(im, o, holes)
			if got == "<skip>" {
				continue
			}
			if got != want {
				sig := "op-result-differs:" + c15Names[o.Kind]
				var gi, wi int
				fmt.Sscanf(got, "%d", &gi)
				fmt.Sscanf(want, "%d", &wi)
				if o.Kind == 3 && c15LenOnLazy && strings.HasSuffix(got, " ok") && strings.HasSuffix(want, " ok") && gi < wi {
					// Len on a partially parsed container counts the children parsed so far (F8, a
					// documented quirk): recorded once per run, the history goes on
					if pendingKnown == "" {
						pendingKnown = fmt.Sprintf("step %d %s on %s: got %s, model %s", k, o, implNames[i], got, want)
					}
					continue
				}
				if strings.HasPrefix(got, "PANIC(") {
					sig = "panic:" + c15Names[o.Kind]
				}
				return fail(sig, fmt.Sprintf("step %d %s on %s: got %s, model %s", k, o, implNames[i], clip(got, 200), clip(want, 200)))
			}
		}
		c.inc("ops_checked")
		if o.Kind >= 18 || o.Kind == 7 || o.Kind == 8 {
			c.inc("fault_forced_representation_change")
		}
	}
	// final state
	want := model.canonY()
	for i, im := range impls {
		if got := canonNode(im); got != want {
			return fail("final-marshal-differs", fmt.Sprintf("final MarshalJSON of %s: %s, model %s", implNames[i], clip(got, 300), clip(want, 300)))
		}
	}
	sample["history"] = hist
	if pendingKnown != "" {
		res.Sig = "C15:Len:partial-count-on-lazy-node"
		res.Detail = pendingKnown + fmt.Sprintf(" | doc=%q history=%v", clip(doc, 200), hist)
	}
	return res
}

// pathsY: like paths, but does not descend into opaque V_ANY leaves.
func (v *JV) pathsY(prefix []interface{}, out *[][]interface{}) {
	*out = append(*out, append([]interface{}(nil), prefix...))
	switch v.K {
	case 'a':
		for i, e := range v.Arr {
			e.pathsY(append(prefix, i), out)
		}
	case 'o':
		seen := map[string]bool{}
		for _, p := range v.Obj {
			if seen[p.Key] {
				continue
			}
			seen[p.Key] = true
			p.Val.pathsY(append(prefix, p.Key), out)
		}
	}
}
