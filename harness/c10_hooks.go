//go:build verif && verifc10

package main

import (
	"github.com/bytedance/sonic/internal/decoder/jitdec"
	"github.com/bytedance/sonic/internal/encoder/x86"
)

// c10Install points sonic's per-opcode debug seam (both JITs) at h.
func c10Install(h func(dec bool, i, op, next int)) bool {
	if h == nil {
		jitdec.SimOpHook, x86.SimOpHook = nil, nil
		return true
	}
	jitdec.SimOpHook = func(i, op, next int) { h(true, i, op, next) }
	x86.SimOpHook = func(i, op, next int) { h(false, i, op, next) }
	return true
}

func c10OpName(dec bool, op int) string {
	if dec {
		return jitdec.SimOpName(op)
	}
	return x86.SimOpName(op)
}
