//go:build verif

package main

import (
	"strconv"
	"strings"

	"github.com/bytedance/sonic/internal/simrt"
)

// Seeded JSON document generator shared by the workloads. Everything is
// drawn from the Ops stream of the tape.

type genOpts struct {
	MaxDepth  int
	MaxWidth  int
	Escapes   bool // string escapes / non-ASCII
	BigObject bool // sometimes > 16 keys (ast hash index)
	BigArray  bool // sometimes 15..50 elements (ast node storage is chunked by 16)
	Spaces    bool // insignificant whitespace inside
	DupKeys   bool
}

var genKeys = []string{"a", "b", "c", "id", "name", "k0", "k1", "k2", "x", "y", "z", "list", "obj", "é", "q\"uote", "s p", "tab\t", ""}
var genStrs = []string{"", "a", "hello", "wörld", "x\"y", "back\\slash", "line\nbreak", "<tag>&", "日本語", " ", "0123456789abcdef0123456789abcdef", "tab\there", "null", "true", "😀"}
var genNums = []string{"0", "1", "-1", "12", "123456789", "-0", "1.5", "-2.25", "1e3", "1E-2", "3.14159", "9007199254740993", "18446744073709551615", "-9223372036854775808", "0.1", "2.5e-8", "100", "65535", "7"}

func quoteJSON(s string) string {
	var sb strings.Builder
	sb.WriteByte('"')
	for _, r := range s {
		switch {
		case r == '"':
			sb.WriteString(`\"`)
		case r == '\\':
			sb.WriteString(`\\`)
		case r == '\n':
			sb.WriteString(`\n`)
		case r == '\t':
			sb.WriteString(`\t`)
		case r < 0x20:
			sb.WriteString(`\u00`)
			sb.WriteString(strconv.FormatInt(int64(r)+0x100, 16)[1:])
		default:
			sb.WriteRune(r)
		}
	}
	sb.WriteByte('"')
	return sb.String()
}

type gen struct {
	t *simrt.Tape
	o genOpts
}

func (g *gen) d(n int) int { return g.t.Draw(simrt.Ops, n) }

func (g *gen) sp(sb *strings.Builder) {
	if g.o.Spaces && g.d(4) == 0 {
		sb.WriteString([]string{" ", "\n", "\t", "  ", "\r\n"}[g.d(5)])
	}
}

func (g *gen) str() string {
	if g.o.Escapes {
		return genStrs[g.d(len(genStrs))]
	}
	return []string{"", "a", "hello", "xyz", "0123456789abcdef0123456789abcdef", "null"}[g.d(6)]
}

func (g *gen) num() string {
	if g.d(3) == 0 {
		return strconv.Itoa(g.d(2000) - 1000)
	}
	return genNums[g.d(len(genNums))]
}

func (g *gen) scalar(sb *strings.Builder) {
	switch g.d(6) {
	case 0:
		sb.WriteString("null")
	case 1:
		sb.WriteString("true")
	case 2:
		sb.WriteString("false")
	case 3:
		sb.WriteString(quoteJSON(g.str()))
	default:
		sb.WriteString(g.num())
	}
}

func (g *gen) value(sb *strings.Builder, depth int) {
	k := g.d(10)
	if depth >= g.o.MaxDepth {
		k = 9
	}
	switch {
	case k < 3: // object
		n := g.d(g.o.MaxWidth + 1)
		if g.o.BigObject && depth <= 1 && g.d(6) == 0 {
			n = 17 + g.d(8)
			if g.o.BigArray && g.d(2) == 0 {
				n = 15 + g.d(36) // across several storage chunks
			}
		}
		sb.WriteByte('{')
		used := map[string]bool{}
		first := true
		emptyAt := -1
		if n > 12 && g.o.Escapes && g.d(3) == 0 {
			emptyAt = g.d(n) // big (indexed) objects also get the empty key
		}
		for i := 0; i < n; i++ {
			var key string
			if i == emptyAt {
				key = ""
			} else if n > 12 {
				key = "k" + strconv.Itoa(i)
				if g.o.DupKeys && i > 0 && g.d(8) == 0 {
					key = "k" + strconv.Itoa(g.d(i))
				}
			} else {
				key = genKeys[g.d(len(genKeys))]
				if !g.o.Escapes {
					key = genKeys[g.d(11)]
				}
			}
			if used[key] && !g.o.DupKeys {
				continue
			}
			used[key] = true
			if !first {
				sb.WriteByte(',')
			}
			first = false
			g.sp(sb)
			sb.WriteString(quoteJSON(key))
			g.sp(sb)
			sb.WriteByte(':')
			g.sp(sb)
			g.value(sb, depth+1)
			g.sp(sb)
		}
		sb.WriteByte('}')
	case k < 6: // array
		n := g.d(g.o.MaxWidth + 1)
		if g.o.BigArray && depth <= 1 && g.d(6) == 0 {
			n = 15 + g.d(36)
		}
		sb.WriteByte('[')
		for i := 0; i < n; i++ {
			if i > 0 {
				sb.WriteByte(',')
			}
			g.sp(sb)
			g.value(sb, depth+1)
			g.sp(sb)
		}
		sb.WriteByte(']')
	default:
		g.scalar(sb)
	}
}

// Doc generates one JSON value as text.
func (g *gen) Doc() string {
	var sb strings.Builder
	g.value(&sb, 0)
	return sb.String()
}

// Container generates an object or array at top level.
func (g *gen) Container() string {
	for i := 0; i < 8; i++ {
		s := g.Doc()
		if s[0] == '{' || s[0] == '[' {
			return s
		}
	}
	return `{"a":[1,2,{"b":null}],"c":"d"}`
}
