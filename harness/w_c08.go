//go:build verif

package main

import (
	"bytes"
	"encoding/json"
	"fmt"
	"os"
	"reflect"
	"strings"
	"sync/atomic"

	"github.com/bytedance/sonic"
	"github.com/bytedance/sonic/encoder"
	"github.com/bytedance/sonic/internal/decoder/jitdec"
	"github.com/bytedance/sonic/internal/decoder/optdec"
	"github.com/bytedance/sonic/internal/encoder/vars"
	"github.com/bytedance/sonic/internal/simrt"
	"github.com/bytedance/sonic/option"
)

// C08: concurrent API calls (incl. first-use compilation) under the seeded
// scheduler. Oracle O1: each call's result equals the same call executed
// alone after the run, and encoding/json; O2 race detector (race flavour);
// O3 no deadlock; O4 no panic other than injected callback panics.

func init() {
	workloads["C08"] = &workload{run: runC08}
}

var stdAPI = sonic.ConfigStd

type c08Call struct {
	Kind  int // 0 Marshal 1 Unmarshal 2 Valid 3 Get 4 Pretouch 5 MarshalString 6 UnmarshalString 7 EncodeInto 8 MarshalIndent 9 PretouchMany
	T     int // type index
	V     reflect.Value
	Text  string
	Path  []interface{}
	Opts  []option.CompileOption
	Multi []int
}

var c08KindNames = []string{"Marshal", "Unmarshal", "Valid", "Get", "Pretouch", "MarshalString", "UnmarshalString", "EncodeInto", "MarshalIndent", "UnmarshalBurst(malformed)"}

type c08Res struct {
	Out   string
	Val   interface{} // decoded value (pointer)
	Err   string
	Panic string
	Raw   []byte // the very slice sonic returned (kept to see whether later calls touch it)
	Inj   bool   // a callback of this call was made to fail (injected fault)
}

func (r c08Res) String() string {
	if r.Panic != "" {
		return "PANIC(" + r.Panic + ")"
	}
	if r.Err != "" {
		return "ERR(" + clip(r.Err, 100) + ")"
	}
	if r.Val != nil {
		b, _ := json.Marshal(r.Val)
		return "val:" + clip(string(b), 160)
	}
	return "out:" + clip(r.Out, 160)
}

func errStr(err error) string {
	if err == nil {
		return ""
	}
	return err.Error()
}

// c08Exec performs one call with sonic. Pure with respect to its arguments.
func c08Exec(types []reflect.Type, cl *c08Call) (res c08Res) {
	defer func() {
		if r := recover(); r != nil {
			if p, ok := r.(cbPanicT); ok {
				res = c08Res{Panic: p.msg}
				return
			}
			panic(r)
		}
	}()
	switch cl.Kind {
	case 0:
		b, err := stdAPI.Marshal(cl.V.Interface())
		return c08Res{Out: string(b), Err: errStr(err), Raw: b}
	case 5:
		s, err := stdAPI.MarshalToString(cl.V.Interface())
		return c08Res{Out: s, Err: errStr(err)}
	case 8:
		b, err := stdAPI.MarshalIndent(cl.V.Interface(), "", " ")
		return c08Res{Out: string(b), Err: errStr(err), Raw: b}
	case 7:
		buf := make([]byte, 3, 3+len(cl.Text)/2)
		copy(buf, "pfx")
		err := encoder.EncodeInto(&buf, cl.V.Interface(), encoder.SortMapKeys|encoder.EscapeHTML|encoder.CompactMarshaler)
		if err == nil && !bytes.HasPrefix(buf, []byte("pfx")) {
			return c08Res{Err: "EncodeInto clobbered the prefix"}
		}
		if err != nil {
			return c08Res{Err: errStr(err)}
		}
		return c08Res{Out: string(buf[3:])}
	case 1:
		p := reflect.New(types[cl.T])
		err := stdAPI.Unmarshal([]byte(cl.Text), p.Interface())
		return c08Res{Val: p.Interface(), Err: errStr(err)}
	case 6:
		p := reflect.New(types[cl.T])
		err := stdAPI.UnmarshalFromString(cl.Text, p.Interface())
		return c08Res{Val: p.Interface(), Err: errStr(err)}
	case 2:
		return c08Res{Out: fmt.Sprint(stdAPI.Valid([]byte(cl.Text)))}
	case 3:
		n, err := sonic.Get([]byte(cl.Text), cl.Path...)
		if err != nil {
			return c08Res{Err: errStr(err)}
		}
		r, err := n.Raw()
		return c08Res{Out: r, Err: errStr(err)}
	case 4:
		err := sonic.Pretouch(types[cl.T], cl.Opts...)
		return c08Res{Err: errStr(err)}
	case 9:
		var last error
		for k := 0; k < cl.Multi[0]; k++ {
			p := reflect.New(types[cl.T])
			last = stdAPI.UnmarshalFromString(cl.Text, p.Interface())
		}
		if last == nil {
			return c08Res{Out: "burst: last decode succeeded"}
		}
		return c08Res{Err: "burst: " + fmt.Sprintf("%T", last)}
	default:
		return c08Res{}
	}
}

// c08Ref: the independent reference (encoding/json) where one exists.
func c08Ref(types []reflect.Type, cl *c08Call) (res c08Res, has bool) {
	switch cl.Kind {
	case 0, 5, 7:
		b, err := json.Marshal(cl.V.Interface())
		return c08Res{Out: string(b), Err: errStr(err)}, true
	case 8:
		b, err := json.MarshalIndent(cl.V.Interface(), "", " ")
		return c08Res{Out: string(b), Err: errStr(err)}, true
	case 1, 6:
		p := reflect.New(types[cl.T])
		err := json.Unmarshal([]byte(cl.Text), p.Interface())
		return c08Res{Val: p.Interface(), Err: errStr(err)}, true
	case 2:
		return c08Res{Out: fmt.Sprint(json.Valid([]byte(cl.Text)))}, true
	}
	return c08Res{}, false
}

func c08Same(a, b c08Res, errText bool) bool {
	if a.Panic != "" || b.Panic != "" {
		return a.Panic == b.Panic
	}
	if (a.Err == "") != (b.Err == "") {
		return false
	}
	if errText && a.Err != b.Err {
		return false
	}
	if a.Err != "" {
		return true
	}
	if a.Out != b.Out {
		return false
	}
	if (a.Val == nil) != (b.Val == nil) {
		return false
	}
	if a.Val != nil && !reflect.DeepEqual(a.Val, b.Val) {
		return false
	}
	return true
}

var c08Caps = []int{2, 4, 8, 64, 4096}

func runC08(c *Ctx) Result {
	t := c.T
	g := &gen{t: t, o: genOpts{MaxDepth: 3, MaxWidth: 4, Escapes: false, Spaces: true}}
	z := &zoo{g: g, cb: true, maxDep: 2 + g.d(2)}
	// knobs
	capD, capE := c08Caps[t.Draw(simrt.Knobs, len(c08Caps))], c08Caps[t.Draw(simrt.Knobs, len(c08Caps))]
	jitdec.SimResetCache(capD)
	optdec.SimResetCache(capD) // the decoder actually in use when SONIC_USE_OPTDEC=1
	vars.SimResetCache(capE)
	simrt.PoolTape = t
	simrt.OrderTape = t
	defer func() { simrt.PoolTape, simrt.OrderTape, simrt.PoolMissPct = nil, nil, 15 }()
	// bursts of failing decodes only make sense when pooled objects really are reused:
	// those runs keep the pools LIFO without forced misses
	burstRun := t.Draw(simrt.Knobs, 4) == 0
	if burstRun {
		simrt.PoolMissPct = 0
	}
	panicPct := 0
	if t.Draw(simrt.Knobs, 4) == 0 {
		panicPct = 4
	}
	failPct := 0
	if t.Draw(simrt.Knobs, 3) == 0 {
		failPct = []int{5, 25}[t.Draw(simrt.Knobs, 2)]
	}

	nTypes := 1 + g.d(4)
	types := make([]reflect.Type, nTypes)
	for i := range types {
		if g.d(5) == 0 {
			types[i] = z.Type(0)
		} else {
			types[i] = z.Struct(0)
		}
	}
	nClients := 2 + g.d(5)
	calls := make([][]c08Call, nClients)
	hotT := g.d(nTypes)
	for i := range calls {
		n := 1 + g.d(6)
		for j := 0; j < n; j++ {
			cl := c08Call{Kind: g.d(9), T: g.d(nTypes)}
			if g.d(2) == 0 {
				cl.T = hotT // several clients share one type: first-use compilation races
			}
			if burstRun && g.d(4) == 0 {
				// a burst of FAILING decodes (document cut inside its nesting): whatever an error
				// path leaves behind in pooled decoder state accumulates, and the other clients'
				// valid calls must not notice
				v := z.Value(types[cl.T], 0)
				if b, err := json.Marshal(v.Interface()); err == nil && len(b) > 8 {
					cl.Kind = 9
					cl.Text = string(b[:len(b)/2+g.d(len(b)/2)])
					cl.Multi = []int{150 + g.d(1500)}
					calls[i] = append(calls[i], cl)
					continue
				}
			}
			switch cl.Kind {
			case 0, 5, 7, 8:
				cl.V = z.Value(types[cl.T], 0)
				cl.Text = strings.Repeat("x", g.d(64)) // EncodeInto capacity hint
			case 1, 6, 2, 3:
				v := z.Value(types[cl.T], 0)
				b, err := json.Marshal(v.Interface())
				if err != nil {
					cl.Kind = 0
					cl.V = v
					break
				}
				cl.Text = string(b)
				if cl.Kind == 2 && g.d(3) == 0 {
					cl.Text = cl.Text[:g.d(len(cl.Text)+1)]
				}
				if cl.Kind == 3 {
					cl.Path = nil
					if jv, err := parseJV(cl.Text); err == nil {
						var all [][]interface{}
						jv.paths(nil, &all)
						cl.Path = all[g.d(len(all))]
					}
				}
			case 4:
				if g.d(2) == 0 {
					cl.Opts = append(cl.Opts, option.WithCompileMaxInlineDepth(1+g.d(3)))
				}
				if g.d(2) == 0 {
					cl.Opts = append(cl.Opts, option.WithCompileRecursiveDepth(g.d(3)))
				}
			}
			calls[i] = append(calls[i], cl)
		}
	}

	got := make([][]c08Res, nClients)
	failHit := make([]int, nClients)
	sim := simrt.NewSim(t, 200000)
	if panicPct > 0 {
		cbPanic = func() bool { return simrt.Active() && t.Draw(simrt.Faults, 100) < panicPct }
	}
	if failPct > 0 {
		cbFail = func() bool {
			if simrt.Active() && t.Draw(simrt.Faults, 100) < failPct {
				if me := simrt.Me(); me >= 0 && me < len(failHit) {
					failHit[me]++
				}
				return true
			}
			return false
		}
	}
	defer func() { cbPanic, cbFail = func() bool { return false }, func() bool { return false } }()
	for i := 0; i < nClients; i++ {
		i := i
		got[i] = make([]c08Res, len(calls[i]))
		sim.Go(func() {
			for j := range calls[i] {
				simrt.Yield(-100)
				h0 := failHit[i]
				got[i][j] = c08Exec(types, &calls[i][j])
				got[i][j].Inj = failHit[i] != h0
			}
		})
	}
	cbSentinel = "main.c08Exec"
	atomic.StoreUint32(&cbTraceFail, 0)
	sim.Run()
	cbSentinel = ""
	cbPanic, cbFail = func() bool { return false }, func() bool { return false }
	c.add("sched_steps", sim.Steps)
	c.add("sched_switches", sim.Switches)
	c.add("pool_gets", simrt.PoolStats.Gets)
	c.add("fault_pool_miss", simrt.PoolStats.Miss)
	c.add("fault_pool_steal", simrt.PoolStats.Steal)
	c.add("pool_poisoned_puts", simrt.PoolStats.Poison)
	if n, m := jitdec.SimCacheStats(); m > capD {
		c.inc("probe_decoder_cache_rehashed")
		_ = n
	}
	if _, m := vars.SimCacheStats(); m > capE {
		c.inc("probe_encoder_cache_rehashed")
	}
	var callS [][]string
	for i := range calls {
		var s []string
		for _, cl := range calls[i] {
			s = append(s, fmt.Sprintf("%s(T%d)", c08KindNames[cl.Kind], cl.T))
		}
		callS = append(callS, s)
	}
	var typeS []string
	for _, ty := range types {
		typeS = append(typeS, clip(ty.String(), 120))
	}
	sample := map[string]interface{}{"types": typeS, "calls": callS, "cache_cap_dec": capD, "cache_cap_enc": capE, "steps": sim.Steps, "switches": sim.Switches, "strategy": sim.Strategy, "panic_pct": panicPct, "callback_fail_pct": failPct}
	res := Result{Sample: sample, Nontrivial: sim.Switches > nClients}
	fail := func(sig, detail string, fatal bool) Result {
		res.Sig = "C08:" + sig
		res.Detail = detail + fmt.Sprintf(" | types=%v clients=%d capD=%d capE=%d", typeS, nClients, capD, capE)
		res.Fatal = fatal
		return res
	}
	if sim.Deadlock {
		return fail("deadlock", fmt.Sprintf("clients %v blocked for ever", sim.Blocked), true)
	}
	if atomic.LoadUint32(&cbTraceFail) != 0 {
		return fail("generated-code-unknown-to-runtime", "a traceback taken inside a callback stopped in generated code: the runtime cannot resolve a PC of a codec that is already running (a GC stack scan at this point throws 'unknown caller pc')", false)
	}
	if sim.Livelock {
		c.inc("cap_step_budget_hit")
		return Result{Sample: sample, Fatal: true}
	}
	for i := 0; i < nClients; i++ {
		if p := sim.ClientPanic(i); p != nil {
			return fail("panic", fmt.Sprintf("client %d: %v", i, clip(fmt.Sprint(p), 300)), true)
		}
	}
	// returned bytes are caller-owned also under concurrency: no later call on any
	// goroutine may have changed them (seeded pools poison recycled buffers)
	for i := range calls {
		for j := range calls[i] {
			if g := got[i][j]; g.Raw != nil && g.Err == "" && string(g.Raw) != g.Out {
				return fail("returned-bytes-changed-by-later-calls:"+c08KindNames[calls[i][j].Kind], fmt.Sprintf("client %d call %d: the slice returned by %s read %s when it was returned and %s at the end of the run", i, j, c08KindNames[calls[i][j].Kind], clip(g.Out, 100), clip(string(g.Raw), 100)), false)
			}
		}
	}
	type c08Suspect struct {
		i, j int
		ref  c08Res
	}
	var suspects []c08Suspect
	// O1: solo re-execution after the run + encoding/json
	for i := range calls {
		for j := range calls[i] {
			cl := &calls[i][j]
			g := got[i][j]
			if g.Panic != "" {
				c.inc("fault_callback_panic")
				continue
			}
			if g.Inj {
				// whatever the codec makes of the callback's error (it may wrap or replace it),
				// this call's own result is not comparable; the OTHER calls still are
				c.inc("fault_callback_error")
				continue
			}
			solo := c08Exec(types, cl)
			if !c08Same(g, solo, true) {
				return fail("differs-from-solo:"+c08KindNames[cl.Kind], fmt.Sprintf("client %d call %d %s(T%d): concurrent %s, alone %s", i, j, c08KindNames[cl.Kind], cl.T, g, solo), false)
			}
			if ref, has := c08Ref(types, cl); has {
				if !c08Same(g, ref, false) {
					// concurrent == solo != encoding/json: the generator left the subset in which
					// encoding/json is a valid reference (C01/C03 material), not a concurrency matter
					suspects = append(suspects, c08Suspect{i, j, ref})
					if noClip {
						fmt.Fprintf(os.Stderr, "REFDISAGREE %s(T%d %v): text=%s\n  sonic %s\n  json  %s\n", c08KindNames[cl.Kind], cl.T, types[cl.T], cl.Text, g, ref)
					}
					res.Extra = map[string]interface{}{"ref_disagree": fmt.Sprintf("%s(T%d): sonic %s, encoding/json %s", c08KindNames[cl.Kind], cl.T, g, ref)}
				} else {
					c.inc("calls_checked_vs_encoding_json")
				}
			}
			c.inc("calls_checked_vs_solo")
		}
	}
	if len(suspects) > 0 {
		// The solo call above ran in the same process, i.e. with whatever codecs the concurrent
		// run left in the caches. Arbitrate with EMPTY program caches: if the call then agrees
		// with encoding/json, the concurrent run compiled (and cached) a wrong codec.
		simrt.PoolTape, simrt.OrderTape = nil, nil
		simrt.ResetPools()
		jitdec.SimResetCache(4096)
		optdec.SimResetCache(4096)
		vars.SimResetCache(4096)
		for k, s := range suspects {
			if k >= 4 {
				break
			}
			cl := &calls[s.i][s.j]
			fresh := c08Exec(types, cl)
			if c08Same(fresh, s.ref, false) {
				return fail("wrong-codec-left-in-cache:"+c08KindNames[cl.Kind], fmt.Sprintf("client %d call %d %s(T%d): concurrent run (and every later call) gives %s; with emptied caches %s (= encoding/json)", s.i, s.j, c08KindNames[cl.Kind], cl.T, got[s.i][s.j], fresh), false)
			}
			c.inc("harness_ref_disagrees_with_solo")
		}
	}
	return res
}
