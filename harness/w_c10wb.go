//go:build verif

package main

import (
	"encoding/base64"
	"encoding/json"
	"fmt"
	"runtime"
	"time"
	"unsafe"

	"github.com/bytedance/sonic"
	"github.com/bytedance/sonic/internal/rt"
	"github.com/bytedance/sonic/internal/simrt"
)

// C10, write barriers of generated pointer stores. The schedule is orchestrated around the
// call instead of inside it, because the collector cannot be single-stepped:
//
//  1. a value is decoded once (CopyString: every string is an object the decoder built) and
//     hung at the far end of a long shuffled linked list, its address kept as an integer only;
//  2. a collection is started on another goroutine; this goroutine sleeps until the mark
//     phase is on and its own stack has been scanned (stacks are root jobs: done first);
//  3. it then fetches the value through the integer, copies the OLD field values onto its
//     (already scanned) stack, and lets sonic decode a second document into the same value:
//     every pointer field is overwritten by generated code while the write barrier is on;
//  4. after the cycle: the old values are still referenced, so they must be intact.
//
// The deletion half of Go's hybrid barrier is the only thing that keeps them alive: the
// collector has not reached the value yet (it is chasing the list) and will not look at this
// stack again. Generated code that stores a pointer without reporting the overwritten one
// loses them (GODEBUG=clobberfree=1 makes the loss visible at once).

type c10WBInner struct{ Z string }

type c10WBT struct {
	S string
	N json.Number
	I interface{}
	P *string
	Q string `json:"Q,string"`
	A []string
	E struct {
		X string
		Y *c10WBInner
	}
	R json.RawMessage
	B []byte
	// the object is larger than 512 bytes (it carries a type header in the heap) and ends with a
	// fixed-size array of pointerful elements that both documents fill completely: whatever
	// the decoder clears or copies "after the last element" lies outside the object
	Pad [62]int64
	Arr [2]string
}

type c10WBNode struct {
	next *c10WBNode
	v    *c10WBT
}

const (
	wbS1 = "first-S-built-by-the-decoder-0123456789abcdefghi"
	wbN1 = "123456789012345678901234567890123456789012345678"
	wbI1 = "first-I-built-by-the-decoder-0123456789abcdefghi"
	wbP1 = "first-P-built-by-the-decoder-0123456789abcdefghi"
	wbQ1 = "first-Q-built-by-the-decoder-0123456789abcdefghi"
	wbA1 = "first-A-built-by-the-decoder-0123456789abcdefghi"
	wbX1 = "first-X-built-by-the-decoder-0123456789abcdefghi"
	wbZ1 = "first-Z-built-by-the-decoder-0123456789abcdefghi"
	wbR1 = `{"raw":"first-R-built-by-the-decoder-0123456789abc"}`
	wbB1 = "first-B-built-by-the-decoder-0123456789abcdefghi" // decoded from base64
)

var c10WBJSON1 = `{"S":"` + wbS1 + `","N":` + wbN1 + `,"I":"` + wbI1 + `","P":"` + wbP1 + `","Q":"\"` + wbQ1 + `\"","A":["` + wbA1 + `","` + wbA1 + `"],"E":{"X":"` + wbX1 + `","Y":{"Z":"` + wbZ1 + `"}},"R":` + wbR1 + `,"B":"` + base64.StdEncoding.EncodeToString([]byte(wbB1)) + `","Arr":["first-arr-0","first-arr-1"]}`

var c10WBJSON2 = []string{
	`{"S":"second","N":2,"I":"second","P":"second","Q":"\"second\"","A":["second","second"],"E":{"X":"second","Y":{"Z":"second"}},"R":[2],"B":"","Arr":["x","y"]}`,
	`{"S":"","N":0,"I":null,"P":null,"Q":"\"\"","A":["x"],"E":{"X":"","Y":null},"R":null,"B":null,"Arr":["x","y","z"]}`,
	`{"S":"second","N":2.5,"I":{"k":"v"},"P":"p","Q":"\"q\"","A":["a","b","c","d","e"],"E":{"X":"x","Y":{"Z":"z"}},"R":{"r":2},"B":"c2Vjb25kLXZhbHVlLW9mLUItbG9uZ2VyLXRoYW4tdGhlLWZpcnN0LW9uZS0wMTIzNDU2Nzg5YWJjZGVmZ2hpamtsbW5vcA==","Arr":["only-one"]}`,
}

var c10WBCfg = sonic.Config{CopyString: true}.Froze()

var (
	c10WBHead *c10WBNode // the only root of the list
	c10WBTail uintptr    // address of the last node, as an integer: not a root
)

//go:noinline
func c10WBBuild(n int) {
	ns := make([]*c10WBNode, n)
	for i := range ns {
		ns[i] = new(c10WBNode)
	}
	// fixed permutation: the collector has to chase the list node by node through memory
	x := uint64(0x9e3779b97f4a7c15)
	for i := n - 1; i > 0; i-- {
		x ^= x << 13
		x ^= x >> 7
		x ^= x << 17
		j := int(x % uint64(i+1))
		ns[i], ns[j] = ns[j], ns[i]
	}
	for i := 0; i+1 < n; i++ {
		ns[i].next = ns[i+1]
	}
	c10WBHead, c10WBTail = ns[0], uintptr(unsafe.Pointer(ns[n-1]))
}

//go:noinline
func c10WBAttach() error {
	v := new(c10WBT)
	if err := c10WBCfg.UnmarshalFromString(c10WBJSON1, v); err != nil {
		return err
	}
	(*c10WBNode)(unsafe.Pointer(c10WBTail)).v = v
	return nil
}

func c10WBOn() bool { return rt.RuntimeWriteBarrier&0xff != 0 }

//go:noinline
func c10WBSame(a, b string) bool { return a == b }

// c10WBRedecode runs on a stack the collector has already scanned. Nothing of `old` may
// escape to the heap (a heap copy would be written with a barrier that shades the strings
// and hides the loss): only comparisons read it.
//
//go:noinline
func c10WBRedecode(json2 string, done chan struct{}) (bad int, underMark bool, err error) {
	v := (*c10WBNode)(unsafe.Pointer(c10WBTail)).v
	old := *v
	var oldP string
	if v.P != nil {
		oldP = *v.P
	}
	var oldA0, oldA1 string
	if len(v.A) > 1 {
		oldA0, oldA1 = v.A[0], v.A[1]
	}
	// (the pointee of E.Y and the array behind R are legitimately reused by a second decode:
	// only immutable string data is compared)
	var oldZ string
	if v.E.Y != nil {
		oldZ = v.E.Y.Z
	}
	on1 := c10WBOn()
	err = c10WBCfg.UnmarshalFromString(json2, v)
	on2 := c10WBOn()
	underMark = on1 && on2
	<-done
	runtime.GC() // sweep everything the cycle freed
	c10Churn()
	if !c10WBSame(old.S, wbS1) {
		bad |= 1
	}
	if !c10WBSame(string(old.N), wbN1) {
		bad |= 2
	}
	if s, ok := old.I.(string); !ok || !c10WBSame(s, wbI1) {
		bad |= 4
	}
	if !c10WBSame(oldP, wbP1) {
		bad |= 8
	}
	if !c10WBSame(old.Q, wbQ1) {
		bad |= 16
	}
	if !c10WBSame(oldA0, wbA1) || !c10WBSame(oldA1, wbA1) {
		bad |= 32
	}
	if !c10WBSame(old.E.X, wbX1) {
		bad |= 64
	}
	if !c10WBSame(oldZ, wbZ1) {
		bad |= 128
	}
	// every second document replaces B by a NEW array (empty, nil, or longer than the old
	// capacity), so the old array is never written again
	if !c10WBSame(string(old.B), wbB1) {
		bad |= 256
	}
	return
}

var c10WBFields = []string{"string field", "json.Number field", "interface{} field", "*string pointee", "quoted (,string) field", "[]string elements", "nested struct string", "string in *struct pointee", "[]byte array"}

// c10BarrierRound returns a violation signature and detail, or "".
func c10BarrierRound(c *Ctx, t *simrt.Tape) (string, string) {
	json2 := c10WBJSON2[t.Draw(simrt.Knobs, len(c10WBJSON2))]
	c10WBBuild(300000)
	defer func() { c10WBHead, c10WBTail = nil, 0 }()
	if err := c10WBAttach(); err != nil {
		return "barrier-round-setup", "first decode failed: " + err.Error()
	}
	done := make(chan struct{})
	go func() {
		runtime.GC()
		close(done)
	}()
	deadline := time.Now().Add(2 * time.Second)
	for !c10WBOn() {
		if time.Now().After(deadline) {
			c.inc("cap_mark_phase_not_observed")
			<-done
			return "", ""
		}
		select {
		case <-done:
			c.inc("cap_mark_phase_not_observed")
			return "", ""
		default:
		}
		time.Sleep(20 * time.Microsecond)
	}
	time.Sleep(2 * time.Millisecond) // parked: the root jobs (stacks) are done before the list is chased
	bad, under, err := c10WBRedecode(json2, done)
	c.inc("barrier_rounds")
	if under {
		c.inc("probe_redecode_entirely_under_mark_phase")
	}
	if err != nil {
		return "barrier-round-decode-error", "second decode failed: " + err.Error()
	}
	if bad != 0 {
		var fs []string
		for i, n := range c10WBFields {
			if bad&(1<<uint(i)) != 0 {
				fs = append(fs, n)
			}
		}
		return "old-value-freed-after-overwrite-during-mark-phase", fmt.Sprintf("values the program read before a second Unmarshal into the same struct, and still references, were collected and their memory reused: %v (second document %s; the decode ran with the write barrier on: %v)", fs, json2, under)
	}
	return "", ""
}
