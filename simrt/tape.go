//go:build verif

// Package simrt is the simulator runtime. It is not part of bytedance/sonic:
// the verification build adds it to the sonic module through `go build
// -overlay` as github.com/bytedance/sonic/internal/simrt, so that instrumented
// copies of sonic files and the harness can share one simulator instance.
package simrt

// Stream names one of the independent choice streams of a tape.
type Stream int

const (
	Ops    Stream = iota // workload generation
	Sched                // scheduling decisions
	Faults               // fault / pool / io decisions
	Knobs                // per-run configuration
	nStreams
)

var StreamNames = [nStreams]string{"ops", "sched", "faults", "knobs"}

// Tape is the single source of every choice made in one simulated run.
// Generation mode: each stream is a splitmix64 sequence derived from
// (seed, stream). Replay mode: recorded values are served; draws past the
// end return 0 (the simplest choice by construction of every draw site).
type Tape struct {
	Seed   uint64
	Replay bool
	st     [nStreams]uint64
	Rec    [nStreams][]uint32
	pos    [nStreams]int
	Hash   uint64 // running hash of every draw and every event (trace hash)
	NDraws [nStreams]int
	Log    []byte // optional full event log (enabled by Trace)
	Trace  bool
}

//go:norace
func mix(x uint64) uint64 {
	x += 0x9e3779b97f4a7c15
	x = (x ^ (x >> 30)) * 0xbf58476d1ce4e5b9
	x = (x ^ (x >> 27)) * 0x94d049bb133111eb
	return x ^ (x >> 31)
}

// NewTape creates a generating tape.
func NewTape(seed uint64) *Tape {
	t := &Tape{Seed: seed, Hash: 1469598103934665603}
	for i := range t.st {
		t.st[i] = mix(seed ^ mix(uint64(i)+0x51ed))
		t.Rec[i] = make([]uint32, 0, 256)
	}
	return t
}

// NewReplay creates a tape that serves recorded values.
func NewReplay(seed uint64, rec [4][]uint32) *Tape {
	t := &Tape{Seed: seed, Replay: true, Hash: 1469598103934665603}
	for i := range rec {
		t.Rec[i] = rec[i]
	}
	return t
}

//go:norace
func (t *Tape) next(s Stream) uint64 {
	t.st[s] += 0x9e3779b97f4a7c15
	z := t.st[s]
	z = (z ^ (z >> 30)) * 0xbf58476d1ce4e5b9
	z = (z ^ (z >> 27)) * 0x94d049bb133111eb
	return z ^ (z >> 31)
}

// Draw returns a value in [0,n). n<=1 returns 0 without consuming anything.
//
//go:norace
func (t *Tape) Draw(s Stream, n int) int {
	if n <= 1 {
		return 0
	}
	// The tape stores RAW 32-bit values; a draw reduces them modulo n. A
	// generating tape and a replay of its recording are therefore the same
	// function, and a tape can be pre-generated without running anything
	// (needed to replay and shrink runs that crash the process).
	var raw uint32
	if t.Replay {
		if t.pos[s] < len(t.Rec[s]) {
			raw = t.Rec[s][t.pos[s]]
		}
		t.pos[s]++
	} else {
		raw = uint32(t.next(s) >> 32)
		t.Rec[s] = append(t.Rec[s], raw)
	}
	v := raw % uint32(n)
	t.NDraws[s]++
	t.Hash = (t.Hash ^ (uint64(s)<<32 | uint64(v))) * 1099511628211
	if t.Trace {
		t.logEv('d', uint64(s), uint64(n), uint64(v))
	}
	return int(v)
}

// Chance returns true with probability num/den.
//
//go:norace
func (t *Tape) Chance(s Stream, num, den int) bool {
	return t.Draw(s, den) >= den-num
}

// Event folds a harness- or simulator-level event into the trace hash.
//
//go:norace
func (t *Tape) Event(a, b uint64) {
	t.Hash = (t.Hash ^ (a*0x100000001b3 + b)) * 1099511628211
	if t.Trace {
		t.logEv('e', a, b, 0)
	}
}

//go:norace
func (t *Tape) logEv(k byte, a, b, c uint64) {
	if len(t.Log) > 64<<20 {
		return
	}
	t.Log = append(t.Log, k, ' ')
	t.Log = appendInt(t.Log, int64(int32(a)))
	t.Log = append(t.Log, ' ')
	t.Log = appendInt(t.Log, int64(int32(b)))
	t.Log = append(t.Log, ' ')
	t.Log = appendInt(t.Log, int64(c))
	t.Log = append(t.Log, '\n')
}

//go:norace
func appendInt(b []byte, v int64) []byte {
	if v < 0 {
		b = append(b, '-')
		v = -v
	}
	var tmp [24]byte
	i := len(tmp)
	for {
		i--
		tmp[i] = byte('0' + v%10)
		v /= 10
		if v == 0 {
			break
		}
	}
	return append(b, tmp[i:]...)
}

// Pregenerate returns the first n raw values of every stream for seed.
func Pregenerate(seed uint64, n int) [4][]uint32 {
	t := NewTape(seed)
	var out [4][]uint32
	for s := 0; s < int(nStreams); s++ {
		out[s] = make([]uint32, n)
		for i := range out[s] {
			out[s][i] = uint32(t.next(Stream(s)) >> 32)
		}
	}
	return out
}

// Recorded returns copies of the recorded streams (generation mode) or the
// served streams truncated to what was consumed (replay mode).
func (t *Tape) Recorded() [4][]uint32 {
	var out [4][]uint32
	for i := range out {
		r := t.Rec[i]
		if t.Replay && t.pos[i] < len(r) {
			r = r[:t.pos[i]]
		}
		out[i] = append([]uint32(nil), r...)
	}
	return out
}
