//go:build verif

package simrt

import (
	"fmt"
	"reflect"
	"sort"
	"strconv"
)

// OrderTape, when set, permutes the key order MapKeys returns (Faults stream).
var OrderTape *Tape

// MapKeys replaces `range m` over Go maps in sonic's compile paths (Go's
// per-iteration map randomisation cannot be seeded): keys are sorted by a
// stable printable form and then permuted by the tape, so compile order and
// batch layout are explored AND replayable.
func MapKeys[K comparable, V any](m map[K]V) []K {
	keys := make([]K, 0, len(m))
	strs := make(map[K]string, len(m))
	for k := range m {
		keys = append(keys, k)
		strs[k] = keyString(k)
	}
	sort.SliceStable(keys, func(i, j int) bool { return strs[keys[i]] < strs[keys[j]] })
	if t := OrderTape; t != nil {
		for i := len(keys) - 1; i > 0; i-- {
			j := t.Draw(Faults, i+1)
			keys[i], keys[j] = keys[j], keys[i]
		}
	}
	return keys
}

// TypeKeys is MapKeys for maps keyed by reflect.Type (an interface type does
// not satisfy `comparable` under the module's go 1.18 language level).
func TypeKeys(m interface{}) []reflect.Type {
	mv := reflect.ValueOf(m)
	keys := make([]reflect.Type, 0, mv.Len())
	for _, k := range mv.MapKeys() {
		keys = append(keys, k.Interface().(reflect.Type))
	}
	strs := make([]string, len(keys))
	idx := make([]int, len(keys))
	for i, k := range keys {
		strs[i] = typeKey(k)
		idx[i] = i
	}
	sort.SliceStable(idx, func(i, j int) bool { return strs[idx[i]] < strs[idx[j]] })
	out := make([]reflect.Type, len(keys))
	for i, j := range idx {
		out[i] = keys[j]
	}
	if t := OrderTape; t != nil {
		for i := len(out) - 1; i > 0; i-- {
			j := t.Draw(Faults, i+1)
			out[i], out[j] = out[j], out[i]
		}
	}
	return out
}

func keyString(k interface{}) string {
	switch x := k.(type) {
	case reflect.Type:
		return typeKey(x)
	case interface{ Pack() reflect.Type }:
		return typeKey(x.Pack())
	case string:
		return x
	case fmt.Stringer:
		return x.String()
	}
	return fmt.Sprintf("%v", k)
}

func typeKey(t reflect.Type) string { return typeKeyD(t, 0) }

// typeKeyD: a printable form that separates distinct types which print identically
// (same-named types of different packages or functions, and pointers / slices /
// maps / structs built from them), so that ties - which would fall back to Go's
// random map order - do not occur in practice.
func typeKeyD(t reflect.Type, depth int) (s string) {
	defer func() {
		if recover() != nil {
			s = t.String()
		}
	}()
	s = t.String() + "#" + strconv.Itoa(int(t.Size())) + "#" + t.PkgPath()
	if depth > 3 {
		return s
	}
	switch t.Kind() {
	case reflect.Ptr, reflect.Slice, reflect.Array, reflect.Chan:
		return s + "#(" + typeKeyD(t.Elem(), depth+1) + ")"
	case reflect.Map:
		return s + "#(" + typeKeyD(t.Key(), depth+1) + ":" + typeKeyD(t.Elem(), depth+1) + ")"
	case reflect.Struct:
		for i := 0; i < t.NumField(); i++ {
			f := t.Field(i)
			s += "#" + f.Name + "`" + string(f.Tag) + "`(" + typeKeyD(f.Type, depth+1) + ")"
		}
		return s
	}
	return s + "#" + fmt.Sprintf("%+v", reflect.Zero(t))
}
