//go:build verif

package simrt

import (
	"bytes"
	"sync"
)

// Pool replaces sync.Pool in instrumented sonic files. Every Get is a seeded
// decision (newest / oldest / random / miss) drawn from the Faults stream of
// the active tape, so pool hit/miss and object identity — decided by the Go
// scheduler and GC in production — are explored and replayable.
//
// Put poisons the spare capacity of byte buffers: bytes beyond len are
// unobservable to a correct client, and a result that still aliases a pooled
// buffer becomes visibly corrupt.
//
// All state is touched from //go:norace functions without builtin copy/append
// (which the runtime instruments on its own): the only happens-before edge the
// race detector sees is the per-object Put -> Get edge sync.Pool also gives.
type Pool struct {
	New   func() interface{}
	items []poolItem
	n     int
	reg   bool
	quiet bool
	id    int
}

const poolCap = 32
const quietPoolCap = 16384 // per-instruction pools: must be able to hold a whole released program

type poolItem struct {
	v  interface{}
	hb *sync.Mutex
}

// PoolTape is the tape pool decisions are drawn from (nil: LIFO, never miss).
var PoolTape *Tape

// PoolStats are global counters (reset by ResetPools).
var PoolStats struct {
	Gets, Hits, Miss, Steal, Poison, Drops int
}

// PoolPoison enables poisoning of spare capacity on Put.
var PoolPoison = true

// PoolMissPct is the probability (percent) of a forced miss on a non-empty pool.
var PoolMissPct = 15

var quietHB sync.Mutex // quiet pools share one happens-before token (sync.Pool's own race model is as coarse)

var allPools [128]*Pool
var nPools int

//go:norace
func (p *Pool) register() {
	if !p.reg {
		p.reg = true
		p.id = nPools
		if nPools < len(allPools) {
			allPools[nPools] = p
			nPools++
		}
	}
}

// ResetPools empties every pool that has been used (simulated GC between
// runs: a run's pool state then depends on that run's own history only).
//
//go:norace
func ResetPools() {
	for i := 0; i < nPools; i++ {
		allPools[i].Drain()
	}
	PoolStats.Gets, PoolStats.Hits, PoolStats.Miss, PoolStats.Steal, PoolStats.Poison, PoolStats.Drops = 0, 0, 0, 0, 0, 0
}

// QuietPool is Pool without a preemption point per operation (pools hit once
// per assembled instruction would otherwise dominate every schedule).
type QuietPool struct{ P Pool }

//go:norace
func (q *QuietPool) Get() interface{} { q.P.quiet = true; return q.P.get() }

//go:norace
func (q *QuietPool) Put(x interface{}) { q.P.quiet = true; q.P.put(x) }

//go:norace
func (p *Pool) Get() interface{} {
	Yield(-7)
	return p.get()
}

//go:norace
func (p *Pool) Put(x interface{}) {
	Yield(-8)
	p.put(x)
}

//go:norace
func (p *Pool) get() interface{} {
	p.register()
	PoolStats.Gets++
	t := PoolTape
	if t != nil && t.Trace {
		t.logEv('g', uint64(p.id), uint64(p.n), 0)
	}
	if p.n > 0 {
		idx := p.n - 1
		miss := false
		if t != nil && (!p.quiet || PoolStats.Gets&31 == 0) { // quiet pools: one seeded decision per 32 gets, LIFO otherwise
			switch d := t.Draw(Faults, 100); {
			case d >= 100-PoolMissPct:
				miss = true
				PoolStats.Miss++
			case d >= 70-PoolMissPct && p.n > 1:
				idx = t.Draw(Faults, p.n)
				PoolStats.Steal++
			}
		}
		if !miss {
			it := p.items[idx]
			for k := idx; k+1 < p.n; k++ {
				p.items[k] = p.items[k+1]
			}
			p.n--
			p.items[p.n] = poolItem{}
			PoolStats.Hits++
			it.hb.Lock()
			it.hb.Unlock()
			return it.v
		}
	}
	if p.New != nil {
		return p.New()
	}
	return nil
}

//go:norace
func (p *Pool) put(x interface{}) {
	p.register()
	if x == nil {
		return
	}
	if t := PoolTape; t != nil && t.Trace {
		t.logEv('p', uint64(p.id), uint64(p.n), 0)
	}
	if PoolPoison {
		poison(x)
	}
	if p.items == nil {
		if p.quiet {
			p.items = make([]poolItem, quietPoolCap)
		} else {
			p.items = make([]poolItem, poolCap)
		}
	}
	if p.n == len(p.items) {
		// drop the oldest (what a GC does to the victim cache)
		for k := 0; k+1 < p.n; k++ {
			p.items[k] = p.items[k+1]
		}
		p.n--
		PoolStats.Drops++
	}
	var hb *sync.Mutex
	if !p.quiet {
		hb = new(sync.Mutex)
		hb.Lock()
		hb.Unlock()
	} else {
		hb = &quietHB
		hb.Lock()
		hb.Unlock()
	}
	p.items[p.n] = poolItem{v: x, hb: hb}
	p.n++
}

// Drain empties the pool (simulated GC).
//
//go:norace
func (p *Pool) Drain() {
	for i := 0; i < p.n; i++ {
		p.items[i] = poolItem{}
	}
	p.n = 0
}

//go:norace
func poison(x interface{}) {
	switch b := x.(type) {
	case []byte:
		fill(b[len(b):cap(b)])
	case *[]byte:
		if b != nil {
			fill((*b)[len(*b):cap(*b)])
		}
	case *bytes.Buffer:
		if b != nil {
			s := b.Bytes()
			fill(s[len(s):cap(s)])
		}
	}
}

//go:norace
func fill(b []byte) {
	if len(b) > 0 {
		PoolStats.Poison++
	}
	for i := range b {
		b[i] = 0xDB
	}
}

// PoolsAside runs f with every (non-quiet) pool empty and no tape attached, then puts the
// pools back exactly as they were: what f computes does not depend on the pool history of
// the run, and the run's pool history does not see f. Single-threaded callers only.
//
//go:norace
func PoolsAside(f func()) {
	type saved struct {
		items []poolItem
		n     int
	}
	var sv [len(allPools)]saved
	n0 := nPools
	for i := 0; i < n0; i++ {
		p := allPools[i]
		if p.quiet {
			continue
		}
		sv[i] = saved{p.items, p.n}
		p.items, p.n = nil, 0
	}
	tape, stats := PoolTape, PoolStats
	PoolTape = nil
	defer func() {
		for i := 0; i < nPools; i++ {
			p := allPools[i]
			if p.quiet {
				continue
			}
			if i < n0 {
				p.items, p.n = sv[i].items, sv[i].n
			} else {
				p.Drain()
			}
		}
		PoolTape, PoolStats = tape, stats
	}()
	f()
}
