//go:build verif

package simrt

import (
	"bytes"
	"sync"
)

// Pool replaces sync.Pool in instrumented sonic files. Every Get is a seeded
// decision (newest / oldest / random / miss) drawn from the Faults stream of
// the active tape, so pool hit/miss and object identity — decided by the Go
// scheduler and GC in production — are explored and replayable.
//
// Put poisons the spare capacity of byte buffers: bytes beyond len are
// unobservable to a correct client, and a result that still aliases a pooled
// buffer becomes visibly corrupt.
type Pool struct {
	New   func() interface{}
	items [poolCap]poolItem
	n     int
}

const poolCap = 32

type poolItem struct {
	v  interface{}
	hb *sync.Mutex // reproduces sync.Pool's Put->Get happens-before edge for the race detector, per object
}

// PoolTape is the tape pool decisions are drawn from (nil: LIFO, never miss).
var PoolTape *Tape

// PoolStats are global counters (reset by the harness per run).
var PoolStats struct {
	Gets, Hits, Miss, Steal, Poison, Drops int
}

// PoolPoison enables poisoning of spare capacity on Put.
var PoolPoison = true

// PoolMissPct is the probability (percent) of a forced miss on a non-empty pool.
var PoolMissPct = 15

//go:norace
func (p *Pool) Get() interface{} {
	Yield(-7)
	PoolStats.Gets++
	t := PoolTape
	if p.n > 0 {
		idx := p.n - 1
		miss := false
		if t != nil {
			switch d := t.Draw(Faults, 100); {
			case d >= 100-PoolMissPct:
				miss = true
				PoolStats.Miss++
			case d >= 70-PoolMissPct && p.n > 1:
				idx = t.Draw(Faults, p.n)
				PoolStats.Steal++
			}
		}
		if !miss {
			it := p.items[idx]
			copy(p.items[idx:p.n], p.items[idx+1:p.n])
			p.n--
			p.items[p.n] = poolItem{}
			PoolStats.Hits++
			it.hb.Lock()
			it.hb.Unlock()
			return it.v
		}
	}
	if p.New != nil {
		return p.New()
	}
	return nil
}

//go:norace
func (p *Pool) Put(x interface{}) {
	Yield(-8)
	if x == nil {
		return
	}
	if PoolPoison {
		poison(x)
	}
	if p.n == poolCap {
		// drop the oldest (what a GC does to the victim cache)
		copy(p.items[0:], p.items[1:p.n])
		p.n--
		PoolStats.Drops++
	}
	hb := new(sync.Mutex)
	hb.Lock()
	hb.Unlock()
	p.items[p.n] = poolItem{v: x, hb: hb}
	p.n++
}

// Drain empties the pool (simulated GC).
//
//go:norace
func (p *Pool) Drain() {
	for i := 0; i < p.n; i++ {
		p.items[i] = poolItem{}
	}
	p.n = 0
}

//go:norace
func poison(x interface{}) {
	switch b := x.(type) {
	case []byte:
		fill(b[len(b):cap(b)])
	case *[]byte:
		if b != nil {
			fill((*b)[len(*b):cap(*b)])
		}
	case *bytes.Buffer:
		if b != nil {
			n := b.Len()
			c := b.Cap()
			if c > n {
				s := b.Bytes()
				fill(s[n:cap(s)])
			}
		}
	}
}

//go:norace
func fill(b []byte) {
	if len(b) > 0 {
		PoolStats.Poison++
	}
	for i := range b {
		b[i] = 0xDB
	}
}
