//go:build verif

package simrt

import (
	"sync"
	"syscall"
	"unsafe"
)

// The scheduler runs client goroutines strictly one at a time. Hand-off uses
// raw futex words operated from //go:norace functions so that the race
// detector sees NO happens-before edge between clients other than the ones
// sonic's own synchronisation creates: serialised execution with the race
// detector as a schedule-insensitive oracle for missing synchronisation.

const (
	stRunnable = iota
	stBlocked
	stDone
)

// Strategy kinds.
const (
	StratPreempt = iota // run until block, preempt with probability 1/PreemptDen at each yield
	StratPCT            // random priorities + change points
	StratUniform        // uniform choice at every yield (bounded by budget)
)

type client struct {
	id     int
	gate   uint32 // futex word
	state  int
	wait   unsafe.Pointer // lock blocked on
	prio   int
	fn     func()
	Panic  interface{}
	Steps  int
	abort  bool
}

type abortT struct{ why string }

// Sim is one simulated concurrent run.
type Sim struct {
	T        *Tape
	clients  []*client
	running  int
	mainGate uint32
	wg       sync.WaitGroup

	Strategy   int
	PreemptDen int
	SyncBias   bool
	pctChange  []int
	pctLow     int

	Steps     int
	MaxSteps  int
	Switches  int
	Seq       uint64
	Deadlock  bool
	Livelock  bool
	Blocked   []int // ids blocked at deadlock
	BlockSite []int32
	lastSite  []int32
	aborting  bool
	Overlap   bool // at least one switch happened while another client was mid-flight
	SitesHit  map[int32]int
}

var cur *Sim

// SiteProf, when non-nil, counts yields per site (index = site+512). Debug aid.
var SiteProf []int

// Active reports whether a simulation is in progress.
//
//go:norace
func Active() bool { return cur != nil }

//go:norace
func futexWait(addr *uint32) {
	for *addr == 0 {
		syscall.Syscall6(syscall.SYS_FUTEX, uintptr(unsafe.Pointer(addr)), 0 /*FUTEX_WAIT*/, 0, 0, 0, 0)
	}
	*addr = 0
}

//go:norace
func futexWake(addr *uint32) {
	*addr = 1
	syscall.Syscall6(syscall.SYS_FUTEX, uintptr(unsafe.Pointer(addr)), 1 /*FUTEX_WAKE*/, 1, 0, 0, 0)
}

// NewSim prepares a run. Strategy parameters are drawn from the Knobs stream.
func NewSim(t *Tape, maxSteps int) *Sim {
	s := &Sim{T: t, MaxSteps: maxSteps}
	switch t.Draw(Knobs, 6) {
	case 0:
		s.Strategy, s.PreemptDen = StratPreempt, 500
	case 1, 2:
		s.Strategy, s.PreemptDen = StratPreempt, 50
	case 3:
		s.Strategy, s.PreemptDen = StratPreempt, 5
	case 4:
		s.Strategy = StratPCT
	case 5:
		s.Strategy, s.PreemptDen = StratPreempt, 12
	}
	s.SyncBias = t.Draw(Knobs, 2) == 1
	return s
}

// Go registers a client. Must be called before Run.
func (s *Sim) Go(fn func()) int {
	c := &client{id: len(s.clients), fn: fn}
	s.clients = append(s.clients, c)
	return c.id
}

// Run executes all clients under the seeded scheduler and returns when every
// client has finished (or has been aborted after deadlock / step budget).
func (s *Sim) Run() {
	n := len(s.clients)
	if n == 0 {
		return
	}
	s.lastSite = make([]int32, n)
	if s.Strategy == StratPCT {
		d := 1 + s.T.Draw(Knobs, 3)
		k := 50 << uint(s.T.Draw(Knobs, 6)) // guessed run length
		for i := 0; i < d-1; i++ {
			s.pctChange = append(s.pctChange, 1+s.T.Draw(Sched, k))
		}
		// random distinct priorities
		perm := make([]int, n)
		for i := range perm {
			perm[i] = i
		}
		for i := n - 1; i > 0; i-- {
			j := s.T.Draw(Sched, i+1)
			perm[i], perm[j] = perm[j], perm[i]
		}
		for i, c := range s.clients {
			c.prio = 1000 + perm[i]
		}
		s.pctLow = 999
	}
	s.wg.Add(n)
	for _, c := range s.clients {
		c := c
		go s.clientMain(c)
	}
	s.runMain()
	s.wg.Wait() // real happens-before edge: client results -> harness
}

//go:norace
func (s *Sim) runMain() {
	first := s.pick(-1)
	cur = s
	s.running = first
	futexWake(&s.clients[first].gate)
	futexWait(&s.mainGate)
	cur = nil
}

func (s *Sim) clientMain(c *client) {
	defer s.wg.Done()
	futexWait(&c.gate)
	func() {
		defer func() {
			if r := recover(); r != nil {
				if _, ok := r.(abortT); !ok {
					c.Panic = r
				}
			}
		}()
		if !c.abort {
			c.fn()
		}
	}()
	s.finish(c)
}

//go:norace
func (s *Sim) finish(c *client) {
	c.state = stDone
	nx := s.pick(c.id)
	if nx < 0 {
		// nobody runnable: either all done, or the rest is blocked for ever
		if s.anyBlocked() {
			s.declareDeadlock()
			nx = s.pickAbort()
			if nx >= 0 {
				s.running = nx
				futexWake(&s.clients[nx].gate)
				return
			}
		}
		futexWake(&s.mainGate)
		return
	}
	s.running = nx
	s.Switches++
	futexWake(&s.clients[nx].gate)
}

//go:norace
func (s *Sim) anyBlocked() bool {
	for _, c := range s.clients {
		if c.state == stBlocked {
			return true
		}
	}
	return false
}

//go:norace
func (s *Sim) declareDeadlock() {
	if s.aborting {
		return
	}
	if !s.Livelock {
		s.Deadlock = true
	}
	s.aborting = true
	for _, c := range s.clients {
		if c.state == stBlocked {
			s.Blocked = append(s.Blocked, c.id)
			s.BlockSite = append(s.BlockSite, s.lastSite[c.id])
		}
		if c.state != stDone {
			c.abort = true
			c.state = stRunnable
		}
	}
}

//go:norace
func (s *Sim) pickAbort() int {
	for _, c := range s.clients {
		if c.state != stDone && c.abort {
			return c.id
		}
	}
	return -1
}

// pick chooses the next client to run among runnable ones, excluding `not`
// (pass -1 for none). Returns -1 if there is none.
//
//go:norace
func (s *Sim) pick(not int) int {
	if s.aborting {
		for _, c := range s.clients {
			if c.state != stDone && c.id != not {
				return c.id
			}
		}
		return -1
	}
	var cand [64]int
	n := 0
	for _, c := range s.clients {
		if c.state == stRunnable && c.id != not && n < len(cand) {
			cand[n] = c.id
			n++
		}
	}
	if n == 0 {
		return -1
	}
	if s.Strategy == StratPCT {
		best := cand[0]
		for i := 1; i < n; i++ {
			if s.clients[cand[i]].prio > s.clients[best].prio {
				best = cand[i]
			}
		}
		return best
	}
	return cand[s.T.Draw(Sched, n)]
}

// switchTo hands the processor to client nx and parks the current one.
//
//go:norace
func (s *Sim) switchTo(me *client, nx int) {
	s.running = nx
	s.Switches++
	s.Overlap = true
	futexWake(&s.clients[nx].gate)
	futexWait(&me.gate)
	if me.abort {
		panic(abortT{"abort"})
	}
}

// Yield is a potential preemption point. Inserted before statements of the
// instrumented sonic files and called by harness callbacks.
//
//go:norace
func Yield(site int32) {
	s := cur
	if s == nil {
		return
	}
	me := s.clients[s.running]
	if me.abort {
		// unwinding after deadlock/livelock: deferred code may still call us
		return
	}
	s.Steps++
	me.Steps++
	s.lastSite[me.id] = site
	if SiteProf != nil {
		if i := int(site) + 512; i >= 0 && i < len(SiteProf) {
			SiteProf[i]++
		}
	}
	s.T.Event(uint64(me.id)+1, uint64(uint32(site)))
	if s.Steps > s.MaxSteps {
		s.Livelock = true
		s.declareDeadlock()
		panic(abortT{"steps"})
	}
	switch s.Strategy {
	case StratPCT:
		for i, cp := range s.pctChange {
			if cp == s.Steps {
				me.prio = s.pctLow - i
			}
		}
		nx := s.pick(-1)
		if nx >= 0 && nx != me.id {
			s.switchTo(me, nx)
		}
	case StratUniform:
		nx := s.pick(-1)
		if nx >= 0 && nx != me.id {
			s.switchTo(me, nx)
		}
	default:
		den := s.PreemptDen
		if site < 0 && site > -100 && s.SyncBias {
			// synchronisation points (lock / unlock / pool get / put): in half of the runs a
			// context switch lands there far more often than elsewhere - the windows between
			// "released the read lock" and "took the write lock", between Put and Get, are
			// where check-then-act slips live
			den = 3
		}
		if s.T.Draw(Sched, den) == den-1 { // 0 = continue (replay past the end, shrinker)
			nx := s.pick(me.id)
			if nx >= 0 {
				s.switchTo(me, nx)
			}
		}
	}
}

// block parks the running client until `on` is released. Returns after the
// client has been made runnable and scheduled again (caller retries TryLock).
//
//go:norace
func (s *Sim) block(on unsafe.Pointer) {
	me := s.clients[s.running]
	if me.abort {
		panic(abortT{"abort"})
	}
	s.Steps++
	s.T.Event(uint64(me.id)+0x100, uint64(uintptr(0)))
	me.state = stBlocked
	me.wait = on
	nx := s.pick(me.id)
	if nx < 0 {
		s.declareDeadlock()
		panic(abortT{"deadlock"})
	}
	if s.Steps > s.MaxSteps {
		s.Livelock = true
		s.declareDeadlock()
		panic(abortT{"steps"})
	}
	s.switchTo(me, nx)
}

// release marks every client blocked on `on` runnable.
//
//go:norace
func (s *Sim) release(on unsafe.Pointer) {
	for _, c := range s.clients {
		if c.state == stBlocked && c.wait == on {
			c.state = stRunnable
			c.wait = nil
		}
	}
}

// Me returns the id of the running client (-1 outside a simulation).
//
//go:norace
func Me() int {
	if cur == nil {
		return -1
	}
	return cur.running
}

// NextSeq returns the next global event sequence number.
//
//go:norace
func NextSeq() uint64 {
	if cur == nil {
		return 0
	}
	cur.Seq++
	return cur.Seq
}

// ClientPanic returns what client i panicked with (nil if it did not).
func (s *Sim) ClientPanic(i int) interface{} { return s.clients[i].Panic }

// ClientSteps returns the number of yield points client i passed.
func (s *Sim) ClientSteps(i int) int { return s.clients[i].Steps }
