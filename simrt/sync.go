//go:build verif

package simrt

import (
	"sync"
	"unsafe"
)

// Mutex replaces sync.Mutex in instrumented sonic files. It wraps a real
// sync.Mutex (so the race detector sees exactly the acquire/release edges the
// original code creates) and turns blocking into a scheduler event.
type Mutex struct {
	mu sync.Mutex
}

//go:norace
func (m *Mutex) Lock() {
	if cur == nil {
		m.mu.Lock()
		return
	}
	Yield(-1)
	for !m.mu.TryLock() {
		cur.block(unsafe.Pointer(m))
	}
}

//go:norace
func (m *Mutex) TryLock() bool { return m.mu.TryLock() }

//go:norace
func (m *Mutex) Unlock() {
	m.mu.Unlock()
	if cur != nil {
		cur.release(unsafe.Pointer(m))
		Yield(-2)
	}
}

// RWMutex replaces sync.RWMutex.
type RWMutex struct {
	mu sync.RWMutex
}

//go:norace
func (m *RWMutex) Lock() {
	if cur == nil {
		m.mu.Lock()
		return
	}
	Yield(-3)
	for !m.mu.TryLock() {
		cur.block(unsafe.Pointer(m))
	}
}

//go:norace
func (m *RWMutex) Unlock() {
	m.mu.Unlock()
	if cur != nil {
		cur.release(unsafe.Pointer(m))
		Yield(-4)
	}
}

//go:norace
func (m *RWMutex) RLock() {
	if cur == nil {
		m.mu.RLock()
		return
	}
	Yield(-5)
	for !m.mu.TryRLock() {
		cur.block(unsafe.Pointer(m))
	}
}

//go:norace
func (m *RWMutex) RUnlock() {
	m.mu.RUnlock()
	if cur != nil {
		cur.release(unsafe.Pointer(m))
		Yield(-6)
	}
}

//go:norace
func (m *RWMutex) TryLock() bool  { return m.mu.TryLock() }
//go:norace
func (m *RWMutex) TryRLock() bool { return m.mu.TryRLock() }
//go:norace
func (m *RWMutex) RLocker() sync.Locker { return (*rlocker)(m) }

type rlocker RWMutex

//go:norace
func (r *rlocker) Lock()   { (*RWMutex)(r).RLock() }
//go:norace
func (r *rlocker) Unlock() { (*RWMutex)(r).RUnlock() }
