// Orchestrator of the deterministic-simulation checks for bytedance/sonic.
// No sonic import: it instruments the current /repo tree into a scratch
// overlay, builds the worker, spawns worker processes, matches violations
// against known_findings.txt, minimises, writes replay and evidence files.
package main

import (
	"bufio"
	"bytes"
	"encoding/json"
	"fmt"
	"os"
	"os/exec"
	"path/filepath"
	"regexp"
	"sort"
	"strconv"
	"strings"
	"sync"
	"time"
)

const repoDir = "/repo"

// verifDir is the directory the machinery runs from: /verif, or a snapshot of
// it (`vp run`); ./run changes into its own directory before starting orch.
var verifDir = func() string {
	if d := os.Getenv("VERIF_DIR"); d != "" {
		return d
	}
	if wd, err := os.Getwd(); err == nil {
		if _, err := os.Stat(filepath.Join(wd, "harness", "go.mod")); err == nil {
			return wd
		}
	}
	return "/verif"
}()

type outLine struct {
	K       string                 `json:"k"`
	I       int                    `json:"i"`
	Seed    uint64                 `json:"seed,omitempty"`
	Sig     string                 `json:"sig,omitempty"`
	Detail  string                 `json:"detail,omitempty"`
	Tape    *[4][]uint32           `json:"tape,omitempty"`
	Hash    string                 `json:"hash,omitempty"`
	Fatal   bool                   `json:"fatal,omitempty"`
	Sample  interface{}            `json:"sample,omitempty"`
	Extra   map[string]interface{} `json:"extra,omitempty"`
	Runs    int                    `json:"runs,omitempty"`
	NT      int                    `json:"nt,omitempty"`
	Hashes  []string               `json:"hashes,omitempty"`
	Cnt     map[string]int         `json:"cnt,omitempty"`
	Samples []interface{}          `json:"samples,omitempty"`
	Draws   [4]int                 `json:"draws,omitempty"`
}

type ReplayFile struct {
	Property  string            `json:"property"`
	Workload  string            `json:"workload,omitempty"`
	Flavour   string            `json:"flavour"`
	Env       []string          `json:"env,omitempty"`
	Tier      string            `json:"tier"`
	Cfg       map[string]string `json:"cfg,omitempty"`
	BaseSeed  uint64            `json:"base_seed"`
	Run       int               `json:"run"`
	Prefix    []int             `json:"prefix_runs,omitempty"`
	Tape      [4][]uint32       `json:"tape"`
	TapeSeed  uint64            `json:"tape_seed"`
	Signature string            `json:"signature"`
	Detail    string            `json:"detail,omitempty"`
	Minimised bool              `json:"minimised"`
	Note      string            `json:"note,omitempty"`
}

// batch: a set of runs of one workload configuration in one build flavour.
type batch struct {
	Name     string
	Flavour  string            // plain | race | c10
	Env      []string          // extra environment of the workers
	Cfg      map[string]string // workload configuration
	Quick    int               // runs in the quick tier
	Thorough int               // runs in the thorough tier
	PerProc  int               // runs per worker process
	Progress bool              // -progress (crash attribution)
	Prefix   bool              // runs depend on earlier runs of the same process (replay records the prefix)
	Toolchain string           // "" default, "go1.26.8"
	Workload  string           // worker workload name ("" = the property id)
	TimeoutS int               // per-process watchdog (seconds)
}

func (bt *batch) wl(prop string) string {
	if bt.Workload != "" {
		return bt.Workload
	}
	return prop
}

type propSpec struct {
	ID      string
	Rule    string
	Assume  []string
	Batches []batch
	Stub    string
}

var realStub = map[string]interface{}{
	"real": []string{"all sonic Go code (instrumented copies of the current tree: yields + shims only)", "sonic generated machine code (JIT)", "sonic native SIMD routines", "Go runtime, GC, race detector"},
	"stub": []string{"sync.Pool -> simrt.Pool (seeded hit/miss/steal, poisoning)", "sync.Mutex/RWMutex -> thin wrappers over the real ones (blocking becomes a scheduler event)", "io.Reader/io.Writer -> simulated", "goroutine scheduling -> seeded cooperative scheduler (futex hand-off)", "memory placement of inputs/outputs -> mmap arena with guard pages"},
}

func fatal2(f string, a ...interface{}) {
	fmt.Fprintf(os.Stderr, "orch: "+f+"\n", a...)
	os.Exit(2)
}

func goEnv(extra ...string) []string {
	env := os.Environ()
	env = append(env, "GOFLAGS=-mod=mod", "GOPROXY=off", "GOSUMDB=off", "GOWORK=off", "GOTOOLCHAIN=local")
	return append(env, extra...)
}

type builder struct {
	scratch string
	overlay string
	nsites  int
	bins    map[string]string
	mu      sync.Mutex
	extra   map[string]string
}

func newBuilder(extra map[string]string) *builder {
	base := os.Getenv("VERIF_SCRATCH")
	if base == "" {
		base = os.TempDir()
	}
	scratch, err := os.MkdirTemp(base, "sonic-verif-")
	if err != nil {
		fatal2("scratch: %v", err)
	}
	b := &builder{scratch: scratch, bins: map[string]string{}, extra: extra}
	ov, n, err := buildOverlay(repoDir, verifDir, scratch, extra)
	if err != nil {
		os.RemoveAll(scratch)
		fatal2("instrument: %v", err)
	}
	b.overlay, b.nsites = ov, n
	return b
}

func (b *builder) cleanup() { os.RemoveAll(b.scratch) }

func (b *builder) bin(flavour, toolchain string) (string, error) {
	b.mu.Lock()
	defer b.mu.Unlock()
	key := flavour + "@" + toolchain
	if p, ok := b.bins[key]; ok {
		return p, nil
	}
	gocmd := "go"
	if toolchain != "" {
		gocmd = toolchain
	}
	out := filepath.Join(b.scratch, "worker-"+flavour+strings.ReplaceAll(toolchain, ".", "_"))
	tags := "verif"
	args := []string{"build", "-overlay", b.overlay}
	switch flavour {
	case "race":
		args = append(args, "-race")
	case "c10":
		tags += ",verifc10"
	}
	args = append(args, "-tags", tags, "-o", out, ".")
	cmd := exec.Command(gocmd, args...)
	cmd.Dir = filepath.Join(verifDir, "harness")
	cmd.Env = goEnv()
	t0 := time.Now()
	outb, err := cmd.CombinedOutput()
	if err != nil {
		return "", fmt.Errorf("build %s failed: %v\n%s", key, err, outb)
	}
	fmt.Fprintf(os.Stderr, "orch: built %s in %.1fs\n", key, time.Since(t0).Seconds())
	b.bins[key] = out
	return out, nil
}

// ---------------------------------------------------------------- running

type violation struct {
	Batch  *batch
	Line   outLine
	From   int // first run index of the process (prefix)
	Crash  bool
	Stderr string
}

type batchResult struct {
	Runs    int
	NT      int
	Hashes  map[string]struct{}
	Cnt     map[string]int
	Samples []interface{}
	Viols   []violation
	Draws   [4]int
	Trouble []string
}

func cfgString(m map[string]string) string {
	keys := make([]string, 0, len(m))
	for k := range m {
		keys = append(keys, k)
	}
	sort.Strings(keys)
	var p []string
	for _, k := range keys {
		p = append(p, k+"="+m[k])
	}
	return strings.Join(p, ",")
}

type procOut struct {
	lines  []outLine
	stderr string
	err    error
	timeout bool
}

func runProc(bin string, env []string, timeout time.Duration, args ...string) procOut {
	cmd := exec.Command(bin, args...)
	cmd.Env = append(os.Environ(), env...)
	var so, se bytes.Buffer
	cmd.Stdout = &so
	cmd.Stderr = &limitedWriter{w: &se, n: 1 << 20}
	if err := cmd.Start(); err != nil {
		return procOut{err: err}
	}
	done := make(chan error, 1)
	go func() { done <- cmd.Wait() }()
	var po procOut
	select {
	case po.err = <-done:
	case <-time.After(timeout):
		cmd.Process.Kill()
		<-done
		po.timeout = true
		po.err = fmt.Errorf("watchdog after %v", timeout)
	}
	po.stderr = se.String()
	sc := bufio.NewScanner(&so)
	sc.Buffer(make([]byte, 1<<20), 1<<28)
	for sc.Scan() {
		var l outLine
		if json.Unmarshal(sc.Bytes(), &l) == nil && l.K != "" {
			po.lines = append(po.lines, l)
		}
	}
	return po
}

type limitedWriter struct {
	w *bytes.Buffer
	n int
}

func (l *limitedWriter) Write(p []byte) (int, error) {
	if l.w.Len() < l.n {
		l.w.Write(p)
	}
	return len(p), nil
}

var reFatal = regexp.MustCompile(`(?m)^(fatal error: .*|panic: .*|SIGSEGV.*|unexpected fault address.*|runtime: .*|WARNING: DATA RACE)$`)

var reRaceHdr = regexp.MustCompile(`^(Write|Read|Previous write|Previous read|Atomic write|Atomic read|Previous atomic write|Previous atomic read) at 0x[0-9a-f]+ by (goroutine [0-9]+|main goroutine)`)

// raceSig extracts "func|func" (first sonic frame of each of the two access
// stacks, sorted) from the first race report in stderr. ok=false if neither
// stack has a frame in the code under test (a harness race: trouble, not a violation).
func raceSig(stderr string) (sig string, ok bool) {
	i := strings.Index(stderr, "WARNING: DATA RACE")
	if i < 0 {
		return "", false
	}
	lines := strings.Split(stderr[i:], "\n")
	var frames []string
	inStack := false
	found := false
	for k := 1; k < len(lines) && len(frames) < 2; k++ {
		ln := lines[k]
		if reRaceHdr.MatchString(ln) {
			if inStack && !found {
				frames = append(frames, "?")
			}
			inStack, found = true, false
			continue
		}
		if strings.HasPrefix(ln, "Goroutine ") || strings.HasPrefix(ln, "====") {
			break
		}
		if inStack && !found && strings.HasPrefix(ln, "  ") && !strings.HasPrefix(ln, "      ") {
			fn := strings.TrimSpace(ln)
			if p := strings.Index(fn, "("); p > 0 && strings.HasSuffix(fn, ")") {
				fn = fn[:strings.LastIndex(fn, "(")]
			}
			// the file line follows
			file := ""
			if k+1 < len(lines) {
				file = strings.TrimSpace(lines[k+1])
			}
			if strings.HasPrefix(fn, "runtime.") || strings.HasPrefix(fn, "sync/atomic.") || strings.HasPrefix(fn, "sync.") || strings.HasPrefix(fn, "internal/") {
				continue // innermost runtime frames (memmove, slicecopy, atomics ...)
			}
			if strings.HasPrefix(fn, "github.com/bytedance/sonic/") && !strings.Contains(fn, "/internal/simrt") && !strings.Contains(fn, "/xverif") && !strings.Contains(file, "/verif/harness/") {
				frames = append(frames, strings.TrimPrefix(fn, "github.com/bytedance/sonic/"))
			} else {
				// the access itself is in the simulator or the harness (or foreign code): not sonic's
				frames = append(frames, "?")
			}
			found = true
		}
	}
	if inStack && !found && len(frames) < 2 {
		frames = append(frames, "?")
	}
	real := false
	for _, f := range frames {
		if f != "?" {
			real = true
		}
	}
	if !real {
		return "", false
	}
	sort.Strings(frames)
	return strings.Join(frames, "|"), true
}

// deathSig classifies a worker that died inside a run.
func deathSig(prop, stderr string) (sig, detail string, harnessTrouble bool) {
	if strings.Contains(stderr, "WARNING: DATA RACE") {
		if s, ok := raceSig(stderr); ok {
			return prop + ":race:" + s, "data race reported by the race detector on a schedule chosen by the simulator", false
		}
		return "", "race report without a frame in the code under test", true
	}
	cls := crashClass(stderr)
	return prop + ":crash:" + cls, "worker process died: " + cls, false
}

// readCtx returns what the worker declared it was doing when it died (workloads
// whose violations are process deaths write it before every risky call).
func readCtx(path string) string {
	b, err := os.ReadFile(path)
	os.Remove(path)
	if err != nil {
		return ""
	}
	return strings.TrimSpace(string(b))
}

func crashClass(stderr string) string {
	m := reFatal.FindString(stderr)
	if m == "" {
		return "died-without-message"
	}
	m = regexp.MustCompile(`0x[0-9a-fA-F]+`).ReplaceAllString(m, "0x?")
	m = regexp.MustCompile(`\[[^\]]*\]`).ReplaceAllString(m, "[..]")
	m = regexp.MustCompile(`[0-9]+`).ReplaceAllString(m, "N")
	if len(m) > 100 {
		m = m[:100]
	}
	return m
}

func runBatch(b *builder, prop string, bt *batch, tier string, seed uint64, nruns int, par int, deadline time.Time) (*batchResult, error) {
	bin, err := b.bin(bt.Flavour, bt.Toolchain)
	if err != nil {
		return nil, err
	}
	res := &batchResult{Hashes: map[string]struct{}{}, Cnt: map[string]int{}}
	per := bt.PerProc
	if per <= 0 {
		per = 1000
	}
	type job struct{ from, to int }
	var jobs []job
	for i := 0; i < nruns; i += per {
		to := i + per
		if to > nruns {
			to = nruns
		}
		jobs = append(jobs, job{i, to})
	}
	// spread over at least `par` processes
	if len(jobs) < par && nruns >= par {
		jobs = jobs[:0]
		step := (nruns + par - 1) / par
		for i := 0; i < nruns; i += step {
			to := i + step
			if to > nruns {
				to = nruns
			}
			jobs = append(jobs, job{i, to})
		}
	}
	tmo := time.Duration(bt.TimeoutS) * time.Second
	if tmo == 0 {
		tmo = 10 * time.Minute
	}
	var mu sync.Mutex
	var wg sync.WaitGroup
	ch := make(chan job)
	worker := func() {
		defer wg.Done()
		for j := range ch {
			from := j.from
			for from < j.to {
				if time.Now().After(deadline) {
					mu.Lock()
					res.Cnt["cap_wallclock_jobs_skipped"]++
					mu.Unlock()
					break
				}
				args := []string{"-prop", bt.wl(prop), "-seed", strconv.FormatUint(seed, 10), "-from", strconv.Itoa(from), "-to", strconv.Itoa(j.to), "-tier", tier, "-cfg", cfgString(bt.Cfg)}
				if bt.Progress {
					args = append(args, "-progress")
				}
				ctxf, _ := os.CreateTemp(b.scratch, "ctx-")
				ctxPath := ctxf.Name()
				ctxf.Close()
				po := runProc(bin, append(append([]string{}, bt.Env...), "VERIF_CTXFILE="+ctxPath), tmo, args...)
				ctx := readCtx(ctxPath)
				mu.Lock()
				next := j.to
				lastAt := -1
				gotSum := false
				summed := 0
				for _, l := range po.lines {
					switch l.K {
					case "stop":
						next = l.I + 1
					case "at":
						lastAt = l.I
					case "viol":
						res.Viols = append(res.Viols, violation{Batch: bt, Line: l, From: j.from})
						if l.Fatal {
							next = l.I + 1
						}
					case "end":
						gotSum = true
					case "sum":
						summed += l.Runs
						res.Runs += l.Runs
						res.NT += l.NT
						for _, h := range l.Hashes {
							res.Hashes[h] = struct{}{}
						}
						for k, v := range l.Cnt {
							res.Cnt[k] += v
						}
						for _, s := range l.Samples {
							if len(res.Samples) < 4 {
								res.Samples = append(res.Samples, s)
							}
						}
						for s := range l.Draws {
							res.Draws[s] += l.Draws[s]
						}
					}
				}
				if !gotSum {
					// the process died
					if po.timeout {
						res.Trouble = append(res.Trouble, fmt.Sprintf("batch %s runs %d..%d: watchdog (last run started: %d)", bt.Name, from, j.to, lastAt))
						if lastAt >= 0 && bt.Progress {
							res.Viols = append(res.Viols, violation{Batch: bt, From: j.from, Crash: true, Stderr: tail(po.stderr, 4000),
								Line: outLine{K: "viol", I: lastAt, Sig: prop + ":hang:watchdog", Detail: "worker exceeded the wall-clock watchdog inside this run"}})
							next = lastAt + 1
							res.Runs += lastAt - from
						} else {
							next = j.to
						}
					} else if lastAt >= 0 && bt.Progress {
						sig, det, harness := deathSig(prop, po.stderr)
						if ctx != "" && !harness && strings.Contains(sig, ":crash:") {
							det += " (" + sig + ")"
							sig = ctx
			if i := strings.Index(ctx, " | "); i >= 0 {
				sig, det = ctx[:i], det+" "+ctx[i+3:]
			}
						}
						if harness {
							res.Trouble = append(res.Trouble, fmt.Sprintf("batch %s run %d: %s\n%s", bt.Name, lastAt, det, tail(po.stderr, 3000)))
						} else {
							res.Viols = append(res.Viols, violation{Batch: bt, From: j.from, Crash: true, Stderr: tail(po.stderr, 6000),
								Line: outLine{K: "viol", I: lastAt, Sig: sig, Detail: det}})
						}
						next = lastAt + 1
						if d := lastAt - from + 1 - summed; d > 0 {
							res.Runs += d
						}
					} else {
						res.Trouble = append(res.Trouble, fmt.Sprintf("batch %s runs %d..%d: worker died without verdict: %v\n%s", bt.Name, from, j.to, po.err, tail(po.stderr, 3000)))
						next = j.to
					}
				}
				mu.Unlock()
				from = next
			}
		}
	}
	for i := 0; i < par; i++ {
		wg.Add(1)
		go worker()
	}
	for _, j := range jobs {
		ch <- j
	}
	close(ch)
	wg.Wait()
	return res, nil
}

func tail(s string, n int) string {
	if len(s) > n {
		return "..." + s[len(s)-n:]
	}
	return s
}

// ---------------------------------------------------------------- known findings

type knownFinding struct {
	Prop string
	Sig  string
	Desc string
}

func loadKnown() []knownFinding {
	var out []knownFinding
	b, err := os.ReadFile(filepath.Join(verifDir, "known_findings.txt"))
	if err != nil {
		return nil
	}
	for _, ln := range strings.Split(string(b), "\n") {
		ln = strings.TrimSpace(ln)
		if !strings.HasPrefix(ln, "known:") {
			continue
		}
		rest := strings.TrimSpace(strings.TrimPrefix(ln, "known:"))
		desc := ""
		if i := strings.Index(rest, " :: "); i >= 0 {
			desc = rest[i+4:]
			rest = rest[:i]
		}
		var k knownFinding
		for _, f := range strings.Fields(rest) {
			if strings.HasPrefix(f, "property=") {
				k.Prop = f[9:]
			}
		}
		if i := strings.Index(rest, "sig="); i >= 0 {
			k.Sig = strings.TrimSpace(rest[i+4:])
		}
		k.Desc = desc
		if k.Prop != "" && k.Sig != "" {
			out = append(out, k)
		}
	}
	return out
}

// wildMatch: `*` in a known-finding signature matches any run of characters
// (used where one defect is reachable through many entry points: the finding is
// identified by the input class, the entry point is the wildcard).
func wildMatch(pat, s string) bool {
	parts := strings.Split(pat, "*")
	if len(parts) == 1 {
		return pat == s
	}
	if !strings.HasPrefix(s, parts[0]) {
		return false
	}
	s = s[len(parts[0]):]
	for i := 1; i < len(parts)-1; i++ {
		j := strings.Index(s, parts[i])
		if j < 0 {
			return false
		}
		s = s[j+len(parts[i]):]
	}
	return strings.HasSuffix(s, parts[len(parts)-1])
}

func matchKnown(ks []knownFinding, prop, sig string) *knownFinding {
	for i := range ks {
		if ks[i].Prop == prop && wildMatch(ks[i].Sig, sig) {
			return &ks[i]
		}
	}
	return nil
}

// ---------------------------------------------------------------- replay + shrink

func (b *builder) replayOnce(rf *ReplayFile, timeout time.Duration) (sig string, detail string, rec *[4][]uint32, trouble string) {
	bin, err := b.bin(rf.Flavour, envToolchain(rf.Env))
	if err != nil {
		return "", "", nil, err.Error()
	}
	f, err := os.CreateTemp(b.scratch, "replay-*.json")
	if err != nil {
		return "", "", nil, err.Error()
	}
	js, _ := json.Marshal(rf)
	f.Write(js)
	f.Close()
	defer os.Remove(f.Name())
	ctxf, _ := os.CreateTemp(b.scratch, "ctx-")
	ctxPath := ctxf.Name()
	ctxf.Close()
	po := runProc(bin, append(append([]string{}, rf.Env...), "VERIF_CTXFILE="+ctxPath), timeout, "-replay", f.Name())
	ctx := readCtx(ctxPath)
	at := false
	for _, l := range po.lines {
		if l.K == "at" {
			at = true
		}
		if l.K == "replayed" {
			return l.Sig, l.Detail, l.Tape, ""
		}
	}
	if po.timeout {
		if at {
			return rf.Property + ":hang:watchdog", "watchdog", nil, ""
		}
		return "", "", nil, "watchdog in prefix"
	}
	if at {
		sig, det, harness := deathSig(rf.Property, po.stderr)
		if ctx != "" && !harness && strings.Contains(sig, ":crash:") {
			det += " (" + sig + ")"
			sig = ctx
			if i := strings.Index(ctx, " | "); i >= 0 {
				sig, det = ctx[:i], det+" "+ctx[i+3:]
			}
		}
		if harness {
			return "", "", nil, det + "\n" + tail(po.stderr, 2000)
		}
		return sig, det + "\n" + tail(po.stderr, 3000), nil, ""
	}
	return "", "", nil, "replay worker died before the run: " + tail(po.stderr, 2000)
}

func envToolchain(env []string) string {
	for _, e := range env {
		if strings.HasPrefix(e, "VERIF_TOOLCHAIN=") {
			return e[len("VERIF_TOOLCHAIN="):]
		}
	}
	return ""
}

func cloneTape(t [4][]uint32) [4][]uint32 {
	var o [4][]uint32
	for i := range t {
		o[i] = append([]uint32(nil), t[i]...)
	}
	return o
}

// shrink minimises rf while the same signature reproduces.
func (b *builder) shrink(rf *ReplayFile, maxExec int, budget time.Duration) (*ReplayFile, int) {
	start := time.Now()
	execs := 0
	tmo := 60 * time.Second
	try := func(c *ReplayFile) bool {
		if execs >= maxExec || time.Since(start) > budget {
			return false
		}
		execs++
		sig, _, rec, _ := b.replayOnce(c, tmo)
		if sig == rf.Signature {
			if rec != nil {
				c.Tape = *rec // trimmed to what was consumed
			}
			return true
		}
		return false
	}
	best := *rf
	// 1. drop prefix runs
	if len(best.Prefix) > 0 {
		c := best
		c.Prefix = nil
		if try(&c) {
			best = c
		} else {
			for len(best.Prefix) > 0 {
				c := best
				c.Prefix = append([]int(nil), best.Prefix[len(best.Prefix)/2+1:]...)
				if len(c.Prefix) == len(best.Prefix) || !try(&c) {
					break
				}
				best = c
			}
		}
	}
	// 2. per stream: truncate, zero blocks, delete blocks
	order := []int{0, 2, 1, 3}
	for pass := 0; pass < 2; pass++ {
		for _, s := range order {
			// truncation (draws past the end are 0)
			for n := len(best.Tape[s]); n > 0; {
				n /= 2
				c := best
				c.Tape = cloneTape(best.Tape)
				c.Tape[s] = c.Tape[s][:n]
				if !try(&c) {
					break
				}
				best = c
			}
			for blk := len(best.Tape[s]) / 2; blk >= 1; blk /= 2 {
				for i := 0; i+blk <= len(best.Tape[s]); {
					if execs >= maxExec || time.Since(start) > budget {
						break
					}
					// delete
					c := best
					c.Tape = cloneTape(best.Tape)
					c.Tape[s] = append(c.Tape[s][:i], c.Tape[s][i+blk:]...)
					if try(&c) {
						best = c
						continue
					}
					// zero
					allZero := true
					for _, v := range best.Tape[s][i : i+blk] {
						if v != 0 {
							allZero = false
						}
					}
					if !allZero {
						c := best
						c.Tape = cloneTape(best.Tape)
						for k := i; k < i+blk; k++ {
							c.Tape[s][k] = 0
						}
						if try(&c) {
							best = c
						}
					}
					i += blk
				}
				if len(best.Tape[s]) > 400 && blk < len(best.Tape[s])/32 {
					break // long schedules: stop at coarse granularity
				}
			}
		}
	}
	best.Minimised = true
	return &best, execs
}
