package main

import (
	"encoding/json"
	"fmt"
	"os"
	"os/exec"
	"path/filepath"
	"runtime"
	"sort"
	"strconv"
	"strings"
	"time"
)

func usage() {
	fmt.Fprintln(os.Stderr, `usage: orch check <Cxx> quick|thorough
       orch replay <file>
       orch selftest [Cxx...]
       orch overlay <dir>       (write the instrumented overlay into <dir> and keep it)`)
	os.Exit(2)
}

func main() {
	if len(os.Args) < 2 {
		usage()
	}
	switch os.Args[1] {
	case "check":
		if len(os.Args) < 4 {
			usage()
		}
		os.Exit(cmdCheck(os.Args[2], os.Args[3]))
	case "replay":
		if len(os.Args) < 3 {
			usage()
		}
		os.Exit(cmdReplay(os.Args[2]))
	case "selftest":
		os.Exit(cmdSelftest(os.Args[2:]))
	case "overlay":
		if len(os.Args) < 3 {
			usage()
		}
		os.MkdirAll(os.Args[2], 0o755)
		p, n, err := buildOverlay(repoDir, verifDir, os.Args[2], nil)
		if err != nil {
			fatal2("%v", err)
		}
		fmt.Println(p, n, "sites")
	default:
		usage()
	}
}

func envSeed() uint64 {
	if s := os.Getenv("VERIF_SEED"); s != "" {
		if v, err := strconv.ParseUint(s, 10, 64); err == nil {
			return v
		}
	}
	return 1
}

func repoClean() string {
	out, _ := exec.Command("git", "-C", repoDir, "status", "--short").Output()
	return string(out)
}

// mutantOverlay lets the sensitivity self-test (and nothing else) replace
// files of the tree under test: VERIF_MUTANT=/path/to/dir mirrors /repo.
func mutantOverlay() map[string]string {
	dir := os.Getenv("VERIF_MUTANT")
	if dir == "" {
		return nil
	}
	m := map[string]string{}
	filepath.Walk(dir, func(p string, fi os.FileInfo, err error) error {
		if err == nil && !fi.IsDir() && strings.HasSuffix(p, ".go") {
			rel, _ := filepath.Rel(dir, p)
			m[filepath.Join(repoDir, rel)] = p
		}
		return nil
	})
	return m
}

func cmdCheck(prop, tier string) int {
	spec := specs[prop]
	if spec == nil {
		fatal2("no check for %s", prop)
	}
	if tier != "quick" && tier != "thorough" {
		usage()
	}
	t0 := time.Now()
	seed := envSeed()
	fmt.Printf("VERIF_SEED=%d property=%s tier=%s\n", seed, prop, tier)
	statusBefore := repoClean()
	b := newBuilder(mutantOverlay())
	defer b.cleanup()
	known := loadKnown()
	par := runtime.NumCPU()
	if v := os.Getenv("VERIF_PAR"); v != "" {
		if n, err := strconv.Atoi(v); err == nil && n > 0 {
			par = n
		}
	}
	budget := 25 * time.Minute
	if tier == "thorough" {
		budget = 3 * time.Hour
	}
	if v := os.Getenv("VERIF_BUDGET_S"); v != "" {
		if n, err := strconv.Atoi(v); err == nil && n > 0 {
			budget = time.Duration(n) * time.Second
		}
	}
	deadline := t0.Add(budget)

	total := &batchResult{Hashes: map[string]struct{}{}, Cnt: map[string]int{}}
	perBatch := map[string]interface{}{}
	var allViols []violation
	trouble := []string{}
	flavours := map[string]bool{}
	for i := range spec.Batches {
		bt := &spec.Batches[i]
		n := bt.Quick
		if tier == "thorough" {
			n = bt.Thorough
		}
		if n == 0 {
			continue
		}
		if sc := os.Getenv("VERIF_SCALE"); sc != "" {
			if f, err := strconv.ParseFloat(sc, 64); err == nil {
				n = int(float64(n) * f)
				if n < 1 {
					n = 1
				}
			}
		}
		bseed := seed*1000003 + uint64(i)
		bt0 := time.Now()
		// the time budget is shared: a batch may use an equal share of what is left (what it
		// does not use rolls over to the batches after it), so every configuration gets runs
		left := 0
		for j := i; j < len(spec.Batches); j++ {
			if (tier == "thorough" && spec.Batches[j].Thorough > 0) || (tier != "thorough" && spec.Batches[j].Quick > 0) {
				left++
			}
		}
		bdl := deadline
		if rem := time.Until(deadline); left > 1 && rem > 0 {
			bdl = time.Now().Add(rem / time.Duration(left))
		}
		r, err := runBatch(b, prop, bt, tier, bseed, n, par, bdl)
		if err != nil {
			fmt.Fprintln(os.Stderr, err)
			return 2
		}
		flavours[bt.Flavour+"/"+orDefault(bt.Toolchain, "go-default")] = true
		total.Runs += r.Runs
		total.NT += r.NT
		for h := range r.Hashes {
			total.Hashes[bt.Name+h] = struct{}{}
		}
		for k, v := range r.Cnt {
			total.Cnt[k] += v
		}
		if len(total.Samples) < 6 {
			for _, s := range r.Samples {
				if len(total.Samples) < 6 {
					total.Samples = append(total.Samples, s)
				}
			}
		}
		for s := range r.Draws {
			total.Draws[s] += r.Draws[s]
		}
		for vi := range r.Viols {
			r.Viols[vi].Line.Extra = mergeExtra(r.Viols[vi].Line.Extra, "base_seed", bseed)
		}
		allViols = append(allViols, r.Viols...)
		trouble = append(trouble, r.Trouble...)
		perBatch[bt.Name] = map[string]interface{}{"flavour": bt.Flavour, "env": bt.Env, "cfg": bt.Cfg, "runs": r.Runs, "nontrivial": r.NT,
			"distinct_traces": len(r.Hashes), "violations": len(r.Viols), "wall_s": round1(time.Since(bt0).Seconds())}
		fmt.Fprintf(os.Stderr, "orch: batch %s: %d runs, %d nontrivial, %d distinct, %d violations, %.1fs\n", bt.Name, r.Runs, r.NT, len(r.Hashes), len(r.Viols), time.Since(bt0).Seconds())
	}

	// determinism spot check: re-run the first runs of the first batch in two fresh processes
	detOK, detNote := determinismSpot(b, prop, spec, tier, seed)
	if !detOK {
		trouble = append(trouble, "determinism spot check failed: "+detNote)
	}

	// classify violations
	type sigGroup struct {
		first violation
		count int
	}
	groups := map[string]*sigGroup{}
	var order []string
	for _, v := range allViols {
		g := groups[v.Line.Sig]
		if g == nil {
			g = &sigGroup{first: v}
			groups[v.Line.Sig] = g
			order = append(order, v.Line.Sig)
		}
		g.count++
	}
	sort.Strings(order)
	knownHit := []string{}
	knownRuns, knownSigs := map[string]int{}, map[string]int{}
	var knownOrder []*knownFinding
	defer func() {
		for _, k := range knownOrder {
			fmt.Printf("KNOWN-FINDING: property=%s %s :: %s (%d runs, %d distinct signatures in this run)\n", prop, k.Sig, k.Desc, knownRuns[k.Sig], knownSigs[k.Sig])
		}
	}()
	newViol := 0
	var replayPaths []string
	for _, sig := range order {
		g := groups[sig]
		if k := matchKnown(known, prop, sig); k != nil {
			if knownRuns[k.Sig] == 0 {
				knownOrder = append(knownOrder, k)
			}
			knownRuns[k.Sig] += g.count
			knownSigs[k.Sig]++
			knownHit = append(knownHit, sig)
			continue
		}
		newViol++
		if newViol > 6 {
			fmt.Printf("(further violation signature not minimised: %s, %d runs)\n", sig, g.count)
			continue
		}
		rf := makeReplay(prop, tier, g.first)
		path := reportViolation(b, rf, g.first)
		replayPaths = append(replayPaths, path)
		fmt.Printf("VIOLATION property=%s replay=%s\n", prop, path)
		fmt.Printf("  signature: %s (%d runs)\n  detail: %s\n", sig, g.count, g.first.Line.Detail)
	}

	wall := time.Since(t0).Seconds()
	cov := map[string]interface{}{
		"evaluations":         total.Runs,
		"distinct_nontrivial": len(total.Hashes),
		"rule":                spec.Rule,
		"samples":             total.Samples,
		"nontrivial_runs":     total.NT,
		"batches":             perBatch,
		"counters_and_probes": total.Cnt,
		"draws_per_stream":    map[string]int{"ops": total.Draws[0], "sched": total.Draws[1], "faults": total.Draws[2], "knobs": total.Draws[3]},
		"runs_per_hour":       int(float64(total.Runs) / wall * 3600),
		"seeds_per_hour":      int(float64(total.Runs) / wall * 3600),
		"simulated_time":      "sonic has no clock or timer; simulated progress is counted in scheduler steps / Read+Write calls / hook calls (see counters_and_probes)",
		"build_flavours":      keys(flavours),
		"instrumented_sites":  b.nsites,
		"components":          realStub,
		"known_findings_hit":  knownHit,
		"violation_signatures": order,
		"determinism_spot_check": detNote,
		"trouble":             trouble,
	}
	ev := map[string]interface{}{
		"property_id": prop, "tier": tier, "seed": seed, "level": "exploration",
		"coverage": cov, "assumptions": spec.Assume, "wall_s": round1(wall), "violations": newViol,
	}
	os.MkdirAll(filepath.Join(verifDir, "evidence"), 0o755)
	js, _ := json.MarshalIndent(ev, "", " ")
	if err := os.WriteFile(filepath.Join(verifDir, "evidence", prop+".json"), append(js, '\n'), 0o644); err != nil {
		fatal2("evidence: %v", err)
	}
	if after := repoClean(); after != statusBefore {
		fmt.Fprintf(os.Stderr, "orch: /repo status changed during the check:\n%s\n", after)
		return 2
	}
	fmt.Printf("property=%s tier=%s runs=%d distinct_nontrivial=%d new_violations=%d known=%d wall=%.0fs\n", prop, tier, total.Runs, len(total.Hashes), newViol, len(knownHit), wall)
	if newViol > 0 {
		return 1
	}
	if len(trouble) > 0 {
		for _, t := range trouble {
			fmt.Fprintln(os.Stderr, "orch: trouble:", t)
		}
		return 2
	}
	if total.Runs == 0 {
		fmt.Fprintln(os.Stderr, "orch: no run executed")
		return 2
	}
	return 0
}

func orDefault(s, d string) string {
	if s == "" {
		return d
	}
	return s
}

func mergeExtra(m map[string]interface{}, k string, v interface{}) map[string]interface{} {
	if m == nil {
		m = map[string]interface{}{}
	}
	m[k] = v
	return m
}

func keys(m map[string]bool) []string {
	var o []string
	for k := range m {
		o = append(o, k)
	}
	sort.Strings(o)
	return o
}

func round1(f float64) float64 { return float64(int(f*10+0.5)) / 10 }

func makeReplay(prop, tier string, v violation) *ReplayFile {
	rf := &ReplayFile{Property: prop, Flavour: v.Batch.Flavour, Env: append([]string(nil), v.Batch.Env...), Tier: tier, Cfg: v.Batch.Cfg,
		Run: v.Line.I, Signature: v.Line.Sig, Detail: v.Line.Detail}
	if v.Batch.Toolchain != "" {
		rf.Env = append(rf.Env, "VERIF_TOOLCHAIN="+v.Batch.Toolchain)
	}
	if bs, ok := v.Line.Extra["base_seed"].(uint64); ok {
		rf.BaseSeed = bs
	}
	rf.Workload = v.Batch.Workload
	rf.TapeSeed = runSeed(rf.BaseSeed, v.Batch.wl(prop), v.Line.I)
	if v.Line.Tape != nil {
		rf.Tape = *v.Line.Tape
	} else {
		rf.Note = "process died: tape pre-generated from tape_seed"
		rf.Tape = pregenerate(rf.TapeSeed, 1<<14)
	}
	if v.Batch.Prefix {
		for i := v.From; i < v.Line.I; i++ {
			rf.Prefix = append(rf.Prefix, i)
		}
	}
	return rf
}

// reportViolation minimises, re-verifies in a fresh process, and writes the replay file.
func reportViolation(b *builder, rf *ReplayFile, v violation) string {
	os.MkdirAll(filepath.Join(verifDir, "replays"), 0o755)
	final := rf
	sig, _, _, tr := b.replayOnce(rf, 120*time.Second)
	if sig != rf.Signature {
		rf.Note += fmt.Sprintf(" | WARNING: fresh-process replay gave %q (%s); unminimised tape reported", sig, tr)
	} else {
		maxExec, budget := 300, 120*time.Second
		if os.Getenv("VERIF_NOSHRINK") != "" {
			maxExec = 0
		}
		m, n := b.shrink(rf, maxExec, budget)
		sig2, det2, _, _ := b.replayOnce(m, 120*time.Second)
		if sig2 == rf.Signature {
			m.Note += fmt.Sprintf(" | minimised with %d re-executions; replay verified in a fresh process", n)
			if det2 != "" {
				m.Detail = det2
			}
			final = m
		} else {
			rf.Note += " | minimised tape did not reproduce; unminimised tape reported"
		}
	}
	if v.Stderr != "" {
		final.Note += " | stderr tail: " + tail(v.Stderr, 1500)
	}
	name := fmt.Sprintf("%s-%d-%d.json", rf.Property, rf.BaseSeed, rf.Run)
	path := filepath.Join(verifDir, "replays", name)
	js, _ := json.MarshalIndent(final, "", " ")
	os.WriteFile(path, append(js, '\n'), 0o644)
	return path
}

func cmdReplay(path string) int {
	data, err := os.ReadFile(path)
	if err != nil {
		fatal2("%v", err)
	}
	var rf ReplayFile
	if err := json.Unmarshal(data, &rf); err != nil {
		fatal2("%v", err)
	}
	b := newBuilder(mutantOverlay())
	defer b.cleanup()
	sig, detail, _, tr := b.replayOnce(&rf, 10*time.Minute)
	if tr != "" {
		fmt.Fprintln(os.Stderr, "orch: replay trouble:", tr)
		return 2
	}
	if sig == "" {
		fmt.Printf("replay of %s: property held (recorded signature was %s)\n", path, rf.Signature)
		return 0
	}
	if k := matchKnown(loadKnown(), rf.Property, sig); k != nil {
		fmt.Printf("KNOWN-FINDING: property=%s %s %s\n", rf.Property, sig, k.Desc)
		return 0
	}
	fmt.Printf("VIOLATION property=%s replay=%s\n  signature: %s\n  detail: %s\n", rf.Property, path, sig, detail)
	if sig != rf.Signature {
		fmt.Printf("  (recorded signature was %s)\n", rf.Signature)
	}
	return 1
}

func determinismSpot(b *builder, prop string, spec *propSpec, tier string, seed uint64) (bool, string) {
	notes := []string{}
	for i := range spec.Batches {
		bt := &spec.Batches[i]
		if bt.Quick == 0 && tier == "quick" {
			continue
		}
		if bt.Prefix && false {
			continue
		}
		bin, err := b.bin(bt.Flavour, bt.Toolchain)
		if err != nil {
			return false, err.Error()
		}
		n := 3
		bseed := seed*1000003 + uint64(i)
		var outs [2]string
		for k := 0; k < 2; k++ {
			env := append([]string{}, bt.Env...)
			env = append(env, []string{"GOMAXPROCS=16", "GOMAXPROCS=3"}[k])
			po := runProc(bin, env, 5*time.Minute, "-prop", bt.wl(prop), "-seed", strconv.FormatUint(bseed, 10), "-from", "0", "-to", strconv.Itoa(n), "-tier", tier, "-cfg", cfgString(bt.Cfg), "-hashes")
			var sb strings.Builder
			for _, l := range po.lines {
				if l.K == "h" {
					fmt.Fprintf(&sb, "%d:%s ", l.I, l.Hash)
				}
			}
			outs[k] = sb.String()
		}
		if outs[0] != outs[1] {
			return false, fmt.Sprintf("batch %s: trace hashes differ between two fresh processes: %q vs %q", bt.Name, outs[0], outs[1])
		}
		if outs[0] == "" && !bt.Progress {
			return false, fmt.Sprintf("batch %s: no hashes produced", bt.Name)
		}
		notes = append(notes, fmt.Sprintf("%s: %d runs x 2 fresh processes (GOMAXPROCS 16 vs 3) identical trace hashes", bt.Name, n))
		if len(notes) >= 3 {
			break
		}
	}
	return true, strings.Join(notes, "; ")
}

// ---- same functions as in the worker (kept in sync by the selftest)

func runSeed(base uint64, prop string, i int) uint64 {
	h := base*0x9e3779b97f4a7c15 ^ uint64(i)*0xbf58476d1ce4e5b9
	for _, c := range []byte(prop) {
		h = (h ^ uint64(c)) * 1099511628211
	}
	return h
}

func mix(x uint64) uint64 {
	x += 0x9e3779b97f4a7c15
	x = (x ^ (x >> 30)) * 0xbf58476d1ce4e5b9
	x = (x ^ (x >> 27)) * 0x94d049bb133111eb
	return x ^ (x >> 31)
}

func pregenerate(seed uint64, n int) [4][]uint32 {
	var out [4][]uint32
	for s := 0; s < 4; s++ {
		st := mix(seed ^ mix(uint64(s)+0x51ed))
		out[s] = make([]uint32, n)
		for i := range out[s] {
			st += 0x9e3779b97f4a7c15
			z := st
			z = (z ^ (z >> 30)) * 0xbf58476d1ce4e5b9
			z = (z ^ (z >> 27)) * 0x94d049bb133111eb
			z ^= z >> 31
			out[s][i] = uint32(z >> 32)
		}
	}
	return out
}
