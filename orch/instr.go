package main

import (
	"bytes"
	"encoding/json"
	"fmt"
	"go/ast"
	"go/parser"
	"go/token"
	"os"
	"path/filepath"
	"sort"
	"strings"
)

// Source instrumenter: text insertions at AST-derived byte offsets (no
// re-printing, so comments, //go: directives and line numbers survive).

const simrtImport = `github.com/bytedance/sonic/internal/simrt`

type instrMode int

const (
	modeShim instrMode = iota // only sync.{Mutex,RWMutex,Pool} -> simrt
	modeQuiet                 // shim only, sync.Pool -> simrt.QuietPool (seeded, but no preemption point per Get/Put: per-instruction pools)
	modeSync                  // + yields before statements that touch sync/atomic/pools
	modeAll                   // + yields before every statement
)

type instrFile struct {
	Rel  string
	Mode instrMode
}

// The instrumented file list (DESIGN §2.1). Paths are relative to /repo.
var instrList = []instrFile{
	{"internal/caching/pcache.go", modeAll},
	{"internal/decoder/jitdec/pools.go", modeAll},
	{"internal/decoder/jitdec/decoder.go", modeAll},
	{"internal/encoder/encoder.go", modeAll},
	{"internal/encoder/pools_amd64.go", modeAll},
	{"internal/encoder/compiler.go", modeShim}, // only for the map-range rewrite
	{"internal/encoder/stream.go", modeAll},
	{"internal/encoder/vars/stack.go", modeAll},
	{"internal/encoder/vars/cache.go", modeAll},
	{"internal/encoder/alg/mapiter.go", modeSync},
	{"internal/native/types/types.go", modeSync},
	{"internal/resolver/resolver.go", modeSync},
	{"internal/decoder/api/stream.go", modeAll},
	{"internal/decoder/optdec/compiler.go", modeSync},
	{"internal/decoder/optdec/decoder.go", modeSync},
	{"internal/decoder/optdec/native.go", modeSync},
	{"internal/optcaching/fcache.go", modeSync},
	{"internal/jit/backend.go", modeQuiet},
	{"internal/jit/assembler_amd64.go", modeAll}, // restricted by onlyFuncs
	{"loader/register.go", modeAll},
	{"loader/loader_latest.go", modeAll},
	{"ast/node.go", modeAll},
	{"ast/parser.go", modeAll},
	{"ast/encode.go", modeAll},
	{"ast/search.go", modeAll},
	{"ast/buffer.go", modeAll},
	{"ast/iterator.go", modeAll},
	{"ast/api.go", modeAll},
}

// onlyFuncs: for these files only the listed functions get yield points
// (the per-instruction emitters would drown every schedule).
var onlyFuncs = map[string]map[string]bool{
	"internal/jit/assembler_amd64.go": {"build": true, "release": true, "resolve": true, "validate": true, "assemble": true, "Load": true, "Export": true, "init": true, "Init": true},
}

// mapRange: `range <expr>` over Go maps in the compile paths (N7), rewritten to
// iterate simrt.MapKeys(<expr>) (sorted, then permuted by the tape).
var mapRange = map[string]map[string]bool{
	"internal/decoder/jitdec/decoder.go": {"vtm": true, "compiler.rec": true, "pendings": true},
	"internal/encoder/pools_amd64.go":    {"vtm": true, "compiler.rec": true, "pendings": true},
	"internal/encoder/compiler.go":       {"vtm": true, "sub": true},
	"internal/decoder/optdec/decoder.go": {"vtm": true, "sub": true},
}

// entryOnly: functions that get a single yield at entry (file:func).
var entryOnly = map[string]bool{
	"internal/caching/pcache.go:copy": true,
	// range over a Go map: per-element yields would make the trace depend on map order
	"internal/jit/assembler_amd64.go:resolve":  true,
	"internal/jit/assembler_amd64.go:validate": true,
}

type edit struct {
	off  int
	del  int
	text string
	ord  int
}

type siteInfo struct {
	ID   int    `json:"id"`
	File string `json:"file"`
	Line int    `json:"line"`
}

type instrumenter struct {
	repo    string
	scratch string
	sites   []siteInfo
	overlay map[string]string
	// srcOverride: read this file instead of the /repo one (sensitivity mutants)
	srcOverride map[string]string
}

func hasDirective(doc *ast.CommentGroup, names ...string) bool {
	if doc == nil {
		return false
	}
	for _, c := range doc.List {
		for _, n := range names {
			if strings.HasPrefix(c.Text, "//go:"+n) {
				return true
			}
		}
	}
	return false
}

func (in *instrumenter) instrument(f instrFile) error {
	src := filepath.Join(in.repo, f.Rel)
	readFrom := src
	if o, ok := in.srcOverride[src]; ok {
		readFrom = o
	}
	data, err := os.ReadFile(readFrom)
	if err != nil {
		if os.IsNotExist(err) {
			return nil // file list entries may not exist in a modified tree
		}
		return err
	}
	fset := token.NewFileSet()
	file, err := parser.ParseFile(fset, src, data, parser.ParseComments)
	if err != nil {
		return fmt.Errorf("parse %s: %v", f.Rel, err)
	}
	tf := fset.File(file.Pos())
	off := func(p token.Pos) int { return tf.Offset(p) }
	var edits []edit
	ord := 0
	add := func(o, del int, text string) {
		edits = append(edits, edit{o, del, text, ord})
		ord++
	}
	// import right after the package clause (same line: line numbers unchanged)
	add(off(file.Name.End()), 0, `; import simrt "`+simrtImport+`"`)
	importsSync := false
	for _, im := range file.Imports {
		if strings.Trim(im.Path.Value, "\"`") == "sync" && im.Name == nil {
			importsSync = true
		}
	}
	// shims
	ast.Inspect(file, func(n ast.Node) bool {
		se, ok := n.(*ast.SelectorExpr)
		if !ok {
			return true
		}
		id, ok := se.X.(*ast.Ident)
		if !ok || id.Name != "sync" || id.Obj != nil {
			return true
		}
		switch se.Sel.Name {
		case "Mutex", "RWMutex", "Pool":
			if se.Sel.Name == "Pool" && f.Mode == modeQuiet {
				add(off(id.Pos()), len("sync.Pool"), "simrt.QuietPool")
			} else {
				add(off(id.Pos()), len("sync"), "simrt")
			}
		}
		return true
	})
	// map ranges
	if mr := mapRange[f.Rel]; mr != nil {
		ast.Inspect(file, func(n ast.Node) bool {
			rs, ok := n.(*ast.RangeStmt)
			if !ok || rs.Key == nil || rs.Tok != token.DEFINE {
				return true
			}
			xs := string(data[off(rs.X.Pos()):off(rs.X.End())])
			if !mr[xs] {
				return true
			}
			kname := "zzk"
			if id, ok := rs.Key.(*ast.Ident); ok && id.Name != "_" {
				kname = id.Name
			}
			helper := "simrt.TypeKeys"
			if xs == "pendings" {
				helper = "simrt.MapKeys" // keyed by *rt.GoType
			}
			add(off(rs.Key.Pos()), off(rs.X.End())-off(rs.Key.Pos()), "_, "+kname+" := range "+helper+"("+xs+")")
			if rs.Value != nil {
				if id, ok := rs.Value.(*ast.Ident); ok && id.Name != "_" {
					add(off(rs.Body.Lbrace)+1, 0, " "+id.Name+" := "+xs+"["+kname+"]; _ = "+id.Name+";")
				}
			}
			return true
		})
	}
	// yields
	if f.Mode != modeShim && f.Mode != modeQuiet {
		touches := func(s ast.Stmt) bool {
			if f.Mode == modeAll {
				return true
			}
			txt := string(data[off(s.Pos()):off(s.End())])
			for _, k := range []string{"atomic.", "Lock(", "Unlock(", "Pool", ".Get(", ".Put(", "sync."} {
				if strings.Contains(txt, k) {
					return true
				}
			}
			return false
		}
		var doList func(list []ast.Stmt)
		var walkBody func(n ast.Node)
		doList = func(list []ast.Stmt) {
			for _, s := range list {
				if _, isLabeled := s.(*ast.LabeledStmt); isLabeled && false {
					continue
				}
				if touches(s) {
					pos := fset.Position(s.Pos())
					id := len(in.sites) + 1
					in.sites = append(in.sites, siteInfo{id, f.Rel, pos.Line})
					add(off(s.Pos()), 0, fmt.Sprintf("simrt.Yield(%d); ", id))
				}
			}
		}
		walkBody = func(root ast.Node) {
			skip := map[*ast.BlockStmt]bool{}
			ast.Inspect(root, func(n ast.Node) bool {
				switch x := n.(type) {
				case *ast.SwitchStmt:
					skip[x.Body] = true
				case *ast.TypeSwitchStmt:
					skip[x.Body] = true
				case *ast.SelectStmt:
					skip[x.Body] = true
				case *ast.BlockStmt:
					if !skip[x] {
						doList(x.List)
					}
				case *ast.CaseClause:
					doList(x.Body)
				case *ast.CommClause:
					doList(x.Body)
				}
				return true
			})
		}
		for _, d := range file.Decls {
			fd, ok := d.(*ast.FuncDecl)
			if !ok || fd.Body == nil {
				continue
			}
			if hasDirective(fd.Doc, "nosplit", "norace", "nowritebarrier", "systemstack") {
				continue
			}
			if of := onlyFuncs[f.Rel]; of != nil && !of[fd.Name.Name] {
				continue
			}
			if entryOnly[f.Rel+":"+fd.Name.Name] {
				// bulk-copy loops: one preemption point at entry instead of one per element
				if len(fd.Body.List) > 0 {
					doList(fd.Body.List[:1])
				}
				continue
			}
			walkBody(fd.Body)
		}
		// function literals in package-level var initialisers (e.g. sync.Pool{New: func...})
		for _, d := range file.Decls {
			gd, ok := d.(*ast.GenDecl)
			if !ok {
				continue
			}
			walkBody(gd)
		}
	}
	sort.SliceStable(edits, func(i, j int) bool {
		if edits[i].off != edits[j].off {
			return edits[i].off < edits[j].off
		}
		return edits[i].ord < edits[j].ord
	})
	var out bytes.Buffer
	last := 0
	for _, e := range edits {
		if e.off < last {
			return fmt.Errorf("%s: overlapping edits at %d", f.Rel, e.off)
		}
		out.Write(data[last:e.off])
		out.WriteString(e.text)
		last = e.off + e.del
	}
	out.Write(data[last:])
	out.WriteString("\nvar _ = simrt.Yield\n")
	if importsSync {
		out.WriteString("var _ sync.Locker\n")
	}
	dst := filepath.Join(in.scratch, "src", f.Rel)
	if err := os.MkdirAll(filepath.Dir(dst), 0o755); err != nil {
		return err
	}
	if err := os.WriteFile(dst, out.Bytes(), 0o644); err != nil {
		return err
	}
	in.overlay[src] = dst
	return nil
}

// addTree maps every .go file under srcDir into dstDir through the overlay.
func (in *instrumenter) addTree(srcDir, dstDir string) error {
	return filepath.Walk(srcDir, func(p string, fi os.FileInfo, err error) error {
		if err != nil || fi.IsDir() || !(strings.HasSuffix(p, ".go") || strings.HasSuffix(p, ".s")) {
			return err
		}
		rel, _ := filepath.Rel(srcDir, p)
		in.overlay[filepath.Join(dstDir, rel)] = p
		return nil
	})
}

// buildOverlay instruments the current tree and writes overlay.json.
// extra maps additional replacement files (sensitivity mutants).
func buildOverlay(repo, verif, scratch string, extra map[string]string) (string, int, error) {
	in := &instrumenter{repo: repo, scratch: scratch, overlay: map[string]string{}, srcOverride: extra}
	for _, f := range instrList {
		if err := in.instrument(f); err != nil {
			return "", 0, err
		}
	}
	if err := in.addTree(filepath.Join(verif, "simrt"), filepath.Join(repo, "internal", "simrt")); err != nil {
		return "", 0, err
	}
	if err := in.addTree(filepath.Join(verif, "hooks"), repo); err != nil {
		return "", 0, err
	}
	for k, v := range extra {
		if _, done := in.overlay[k]; !done {
			in.overlay[k] = v
		}
	}
	ov := map[string]interface{}{"Replace": in.overlay}
	b, _ := json.MarshalIndent(ov, "", " ")
	p := filepath.Join(scratch, "overlay.json")
	if err := os.WriteFile(p, b, 0o644); err != nil {
		return "", 0, err
	}
	sb, _ := json.Marshal(in.sites)
	os.WriteFile(filepath.Join(scratch, "sites.json"), sb, 0o644)
	return p, len(in.sites), nil
}
