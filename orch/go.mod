module verif/orch

go 1.18
