package main

// Per-property batch tables. Run counts are sized for 16 cores.

var specs = map[string]*propSpec{
	"C17": {
		ID:   "C17",
		Rule: "one run = one generated stream (0-8 values, separators, optional truncated/malformed tail) decoded through a simulated Reader whose every Read is a tape decision (chunk size, empty read, data+EOF, injected error), or 1-5 values encoded through a simulated Writer failing at a chosen byte; non-trivial = at least two Read calls on a non-empty stream, or a writer fault / more than one value; distinct = distinct trace hash (all draws + read plan + outcome)",
		Assume: []string{
			"framing reference = encoding/json.Decoder (token level only); per-value reference = sonic's one-shot decoder on each frame",
			"tails are restricted to framing-level truncation/garbage; value-level malformedness is C02's subject",
			"destinations always fit the generated values (the stream decoder documents every error as sticky)",
			"Writer obeys the io.Writer contract (n < len(p) implies err != nil)",
		},
		Batches: []batch{
			{Name: "stream", Flavour: "plain", Quick: 160000, Thorough: 6000000, PerProc: 10000},
		},
	},
}
