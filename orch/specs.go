package main

// Per-property batch tables. Run counts are sized for 16 cores.

var specs = map[string]*propSpec{
	"C17": {
		ID:   "C17",
		Rule: "one run = one generated stream (0-8 values, separators, optional truncated/malformed tail) decoded through a simulated Reader whose every Read is a tape decision (chunk size, empty read, data+EOF, injected error), or 1-5 values encoded through a simulated Writer failing at a chosen byte; non-trivial = at least two Read calls on a non-empty stream, or a writer fault / more than one value; distinct = distinct trace hash (all draws + read plan + outcome)",
		Assume: []string{
			"framing reference = encoding/json.Decoder (token level only); per-value reference = sonic's one-shot decoder on each frame",
			"tails are restricted to framing-level truncation/garbage; value-level malformedness is C02's subject",
			"destinations always fit the generated values (the stream decoder documents every error as sticky)",
			"failing Writers obey the io.Writer contract (n < len(p) together with the error); one fault kind is a Writer that takes only part of what it is offered WITHOUT an error: upstream's non-indenting path writes in a loop, so such a Writer must still receive every byte (not applied to the indenting path, where io.Copy reports io.ErrShortWrite)",
		},
		Batches: []batch{
			{Name: "stream", Flavour: "plain", Quick: 160000, Thorough: 6000000, PerProc: 10000},
		},
	},
	"C16": {
		ID:   "C16",
		Rule: "one run = one generated document, one way of obtaining a concurrently-readable node (Searcher{ConcurrentRead} at root or sub-path, NewRawConcurrentRead, NewRaw+Load/LoadAll, child of one of these), 2-5 reader clients x 1-8 documented read operations biased towards one shared still-raw path, executed under the seeded scheduler (statement-level yields in ast/*.go, shim RWMutex); non-trivial = more context switches than clients (readers really overlapped); distinct = distinct trace hash (every scheduling decision + yield site + draw)",
		Assume: []string{
			"code between two yield points is atomic for the scheduler; torn intra-statement accesses are left to the race detector (race flavour), which sees no happens-before edge from the scheduler's futex hand-off",
			"reference = the same reads executed sequentially on a private clone built the same way; on malformed text (where the answer depends on what was parsed before) the recorded history must be linearizable with respect to that single-threaded implementation, or at least every read must be explainable by some single-threaded run of reads invoked before it returned; search budgets (3000 / 2000 clone replays) make a history inconclusive, never a violation",
			"only operations documented as concurrently safe are issued",
		},
		Batches: []batch{
			{Name: "norace", Flavour: "plain", Quick: 24000, Thorough: 600000, PerProc: 600, Progress: true, TimeoutS: 300},
			{Name: "race", Flavour: "race", Env: []string{"GORACE=halt_on_error=1"}, Quick: 6000, Thorough: 150000, PerProc: 250, Progress: true, TimeoutS: 600},
		},
	},
	"C09": {
		ID:   "C09",
		Rule: "one run = one history of 3-16 calls (Marshal, Unmarshal, Pretouch, PretouchMany with values and pointers, compile options MaxInlineDepth 1-3 / RecursiveDepth 0-3) by one client over a universe of 2-8 fresh dynamic types (thorough: occasionally 40-100) plus static types incl. pairs of distinct types that print identically (a/types.T vs b/types.T, function-local T's) and a recursive type; knobs and faults from the tape: program-cache capacities 2..4096 (rehash and probe wrap-around with a handful of types), permutation of every Go map iteration in the compile/batch-load paths, pool hit/miss decisions; every history is distinct by construction (fresh types), non-trivial = every run (each executes a generated history against process-global caches)",
		Assume: []string{
			"reference = the call itself without history: every Marshal/Unmarshal of the history is re-executed after emptying the program caches and pools and must give the same result; one tape-chosen call per two runs is also re-executed by a fresh process of the worker binary that rebuilds types and operations from the same tape (state the resets do not know about); encoding/json (value subset of DESIGN Appendix B) only counts suspects",
			"per-call option sets (4 encoder, 6 decoder configurations), near-twin types whose JSON names differ only in letter case, structs of 47-54 fields around the codecs' inlining threshold",
			"the loader's module list and JIT pages are never reset inside a process (they are part of the history on purpose)",
		},
		Batches: []batch{
			{Name: "history", Flavour: "plain", Quick: 2400, Thorough: 200000, PerProc: 100, Progress: true, TimeoutS: 900},
			{Name: "history-optdec", Flavour: "plain", Env: []string{"SONIC_USE_OPTDEC=1"}, Quick: 600, Thorough: 60000, PerProc: 100, Progress: true, TimeoutS: 900},
			{Name: "history-vm-encoder", Flavour: "plain", Env: []string{"SONIC_ENCODER_USE_VM=1"}, Quick: 600, Thorough: 60000, PerProc: 100, Progress: true, TimeoutS: 900},
		},
	},
	"C10": {
		ID:   "C10",
		Rule: "one run = 1-3 types (fresh dynamic, recursive, maps keyed by a TextUnmarshaler, callback types) x 2-7 Marshal/Unmarshal round trips by one client while the simulator is called after EVERY opcode of every compiled encoder/decoder program (sonic's own debug seam, re-pointed) and inside every user callback (also after the callback's last use of its receiver); at each call the tape decides: nothing, GC, stack growth (stack move), growth+GC (shrink), traceback with sentinel check, debug.Stack, Gosched, background GC cycle (write barrier on while generated code keeps running), allocation churn; GODEBUG=clobberfree=1 and SetGCPercent(-1) so that only simulated collections happen and anything freed too early is overwritten; non-trivial = at least one event injected; distinct = distinct trace hash (which event at which opcode of which program)",
		Assume: []string{
			"events are injected at opcode boundaries and call-outs, not at arbitrary machine instructions (asynchronous preemption is off; rr is unavailable) - DESIGN 5",
			"encoder boundaries immediately before a `save` opcode are exempt, exactly as in upstream's own debug_instr (a fresh object lives only in a register there and no real collection can happen)",
			"the C10 build flavour carries one extra call per opcode; the instruction stream between the calls is the shipped one",
			"background-cycle progress is decided by the Go runtime (GOMAXPROCS=1): that fault kind replays best-effort, all others exactly",
			"a third of the runs Pretouch their types first (batch-loaded multi-function modules instead of one module per program)",
			"a fifth of the runs end with the write-barrier round: a value decoded once is hidden behind a 300k-node shuffled list, a collection is started on another goroutine, and once the mark phase is on and this goroutine's stack has been scanned a second document is decoded into the same value (pointer, map, interface, slice, []byte, string, quoted, nested and fixed-array fields; null / empty / longer replacements) while the OLD field values are held on the stack only; afterwards they must be intact (clobberfree) - the collector itself is not single-stepped, the round only guarantees 'mark phase on during the decode' (probe counted)",
		},
		Batches: []batch{
			{Name: "events", Flavour: "c10", Env: []string{"GODEBUG=clobberfree=1,asyncpreemptoff=1", "GOMAXPROCS=1"}, Quick: 4000, Thorough: 150000, PerProc: 120, Progress: true, TimeoutS: 900},
			{Name: "events-go1.26", Flavour: "c10", Toolchain: "go1.26.8", Env: []string{"GODEBUG=clobberfree=1,asyncpreemptoff=1", "GOMAXPROCS=1"}, Quick: 800, Thorough: 50000, PerProc: 120, Progress: true, TimeoutS: 900},
		},
	},
	"C06": {
		ID:   "C06",
		Rule: "one run = one history of 3-14 calls by one client: Encode/EncodeIndented/Marshal under option sets (EscapeHTML/ValidateString exercise the pooled buffer swap), EncodeInto a caller buffer whose geometry comes from the tape (prefix 0-32, capacity around/below/above the output size, junk in the spare capacity, capacity ending at a PROT_NONE guard page or followed by canaries), Node.MarshalJSON/Raw on raw/lazy/loaded/mutated nodes, Unmarshal([]byte), Decoder+CopyString, Get([]byte), stream Decode into RawMessage; after every call the caller scribbles over its input buffer and every result returned so far is compared with the private snapshot taken when it was returned; seeded pools poison spare capacity on Put; knobs: LimitBufferSize 0..1MiB with output sizes on both sides, Default{Encoder,Ast,Decoder}BufferSize 1..4096, pool miss rate; all histories distinct (fresh types), non-trivial = every run",
		Assume: []string{
			"only the stated direction is checked: sonic must not change bytes it returned or the caller's input; a caller writing into a returned slice is not part of the statement",
			"reference for 'does not depend on the buffer / pool state' = the same value encoded by sonic with the pools set aside (emptied for the reference call and put back exactly afterwards), so the reference neither depends on nor disturbs the history",
			"decodes go into interface{}, generated types and a struct with quoted/numbered/raw/pointer/map/slice destinations, under option sets, through Unmarshal([]byte) (3 entry points) and CopyString (3 entry points)",
		},
		Batches: []batch{
			{Name: "history", Flavour: "plain", Quick: 40000, Thorough: 3000000, PerProc: 2000, Progress: true, TimeoutS: 600},
			{Name: "history-optdec+vm", Flavour: "plain", Env: []string{"SONIC_USE_OPTDEC=1", "SONIC_ENCODER_USE_VM=1"}, Quick: 12000, Thorough: 1000000, PerProc: 2000, Progress: true, TimeoutS: 600},
		},
	},
	"C05": {
		ID:   "C05",
		Rule: "one run = one input (fragment such as a literal prefix / open string / dangling escape / lone surrogate / number tail, valid document, truncation, length pinned to 15..129 around the SIMD block sizes, string payload, documents for typed destinations with base64 / quoted numbers / ,string fields cut anywhere) x one of 45 entry points (parsing, scanning, quoting, validating; decoding into typed destinations; ENCODING of strings, map keys, quoted fields, json.Number, []byte and RawMessage placed in memory like an input; optdec additionally with the pooled parser's buffer capacity, leftovers and node-buffer size drawn per call), evaluated in three placements chosen by the simulator: heap copy, arena with an unmapped PROT_NONE page immediately after the last input byte, arena with 1-48 bytes of a plausible continuation (rue / ull / quote / digits / closers / high bytes ...) after it; the three results (value, error text, position) must be identical and the process must survive; non-trivial = non-empty input; distinct = distinct trace hash (entry point x input)",
		Assume: []string{
			"no schedule is involved: the simulated component is memory placement (DESIGN 3, C05 caveat)",
			"a touched guard page kills the worker; the run is attributed through a context record written before every call",
			"amd64 native routines only (the arm64 copies cannot run here); the SSE variants are covered by the noavx2 batch",
		},
		Batches: []batch{
			{Name: "avx2", Flavour: "plain", Quick: 400000, Thorough: 20000000, PerProc: 20000, Progress: true, TimeoutS: 600},
			{Name: "sse", Flavour: "plain", Env: []string{"SONIC_MODE=noavx2"}, Quick: 200000, Thorough: 10000000, PerProc: 20000, Progress: true, TimeoutS: 600},
			{Name: "optdec", Flavour: "plain", Env: []string{"SONIC_USE_OPTDEC=1"}, Quick: 100000, Thorough: 5000000, PerProc: 20000, Progress: true, TimeoutS: 600},
		},
	},
	"C15": {
		ID:   "C15",
		Rule: "one run = one generated document (depth<=3, escaped/empty/duplicate keys, objects above the 16-pair index threshold) and a history of 1-12 operations (Get, Index, IndexPair, Len, Values, Properties, ForEach, Interface, MarshalJSON, Raw, Set, SetByIndex, SetAny, Add, Unset, UnsetByIndex, Pop, Move, SortKeys) on the root and on nodes re-resolved by path, interleaved with forced representation changes that must be unobservable (Load, LoadAll, Check/Valid/Exists, Raw, MarshalJSON, Interface, full iteration, Get of a missing key); the same history runs on three representations (lazy NewRaw node, NewRaw+LoadAll, tree built with constructors; new children inserted as raw or as constructed nodes) and on a reference model written from the documentation; every operation's result and the final MarshalJSON (values + key order) must agree; non-trivial = every run; distinct = distinct trace hash",
		Assume: []string{
			"no thread schedule or external fault in this property: the technique contributes seeded history search with a reference model and the injected event kind 'representation change at an arbitrary point' (DESIGN 3, C15 caveat)",
			"the model follows the doc comments (DESIGN Appendix A): pointers are never kept across pointer-invalidating operations, Move gets in-range arguments only, V_ANY leaves are never operation targets, Interface is not compared on documents with duplicate keys",
		},
		Batches: []batch{
			{Name: "history", Flavour: "plain", Quick: 300000, Thorough: 20000000, PerProc: 20000, TimeoutS: 600},
		},
	},
	"C08": {
		ID:   "C08",
		Rule: "one run = 1-4 fresh dynamic types (reflect.StructOf etc., never seen by the process: first-use compilation happens inside the run) + callback types that yield mid-encode/mid-decode, 2-6 clients x 1-6 API calls (Marshal, MarshalString, MarshalIndent, EncodeInto, Unmarshal, UnmarshalString, Valid, Get, Pretouch with compile options), several clients sharing one type, injected callback panics and callback errors (calls hit by them are exempt from comparison, all others are compared), bursts of 150-1650 failing decodes, program-cache capacity 2..4096 and pool hit/miss/steal decisions from the tape, injected callback panics in a quarter of the runs; non-trivial = more context switches than clients; distinct = distinct trace hash",
		Assume: []string{
			"generated machine code and native routines are atomic blocks for the scheduler except where they call back into Go (callbacks yield); races inside them are invisible to the race detector",
			"reference = the same call executed alone after the run (the property's wording) and encoding/json inside the value subset of DESIGN Appendix B; a disagreement with encoding/json that the solo call shares is counted (harness_ref_disagrees_with_solo), not reported: it is C01/C03 material",
		},
		Batches: []batch{
			{Name: "norace", Flavour: "plain", Quick: 2400, Thorough: 120000, PerProc: 150, Progress: true, TimeoutS: 600},
			{Name: "race", Flavour: "race", Env: []string{"GORACE=halt_on_error=1"}, Quick: 1200, Thorough: 40000, PerProc: 100, Progress: true, TimeoutS: 900},
			{Name: "cache-component", Flavour: "plain", Workload: "C08cache", Quick: 40000, Thorough: 2000000, PerProc: 4000, Progress: true, TimeoutS: 600},
			{Name: "cache-component-race", Flavour: "race", Workload: "C08cache", Env: []string{"GORACE=halt_on_error=1"}, Quick: 8000, Thorough: 300000, PerProc: 1000, Progress: true, TimeoutS: 600},
			{Name: "race-optdec+vm", Flavour: "race", Env: []string{"GORACE=halt_on_error=1", "SONIC_USE_OPTDEC=1", "SONIC_ENCODER_USE_VM=1"}, Quick: 400, Thorough: 20000, PerProc: 100, Progress: true, TimeoutS: 900},
			{Name: "norace-optdec+fastmap", Flavour: "plain", Env: []string{"SONIC_USE_OPTDEC=1", "SONIC_USE_FASTMAP=1"}, Quick: 600, Thorough: 30000, PerProc: 150, Progress: true, TimeoutS: 600},
		},
	},
}
