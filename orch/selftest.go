package main

import (
	"fmt"
	"os"
	"sort"
	"strconv"
	"strings"
	"time"
)

// cmdSelftest: determinism self-test (DESIGN 2.9). For every batch of every
// (selected) property, the first N runs are executed in several fresh
// processes at GOMAXPROCS 1, 4 and 16 (twice); the per-run trace hashes (all
// draws, yield sites, scheduling decisions, workload events) must be identical.
func cmdSelftest(args []string) int {
	n := 40
	var props []string
	for _, a := range args {
		if v, err := strconv.Atoi(a); err == nil {
			n = v
		} else {
			props = append(props, a)
		}
	}
	if len(props) == 0 {
		for p := range specs {
			props = append(props, p)
		}
		sort.Strings(props)
	}
	b := newBuilder(mutantOverlay())
	defer b.cleanup()
	seed := envSeed()
	bad := 0
	for _, prop := range props {
		spec := specs[prop]
		if spec == nil {
			fmt.Fprintf(os.Stderr, "no spec for %s\n", prop)
			return 2
		}
		for i := range spec.Batches {
			bt := &spec.Batches[i]
			bin, err := b.bin(bt.Flavour, bt.Toolchain)
			if err != nil {
				fmt.Fprintln(os.Stderr, err)
				return 2
			}
			bseed := seed*1000003 + uint64(i)
			var ref string
			ok := true
			t0 := time.Now()
			for k, gmp := range []string{"1", "4", "16", "16", "7"} {
				env := append(append([]string{}, bt.Env...), "GOMAXPROCS="+gmp)
				po := runProc(bin, env, 20*time.Minute, "-prop", bt.wl(prop), "-seed", strconv.FormatUint(bseed, 10), "-from", "0", "-to", strconv.Itoa(n), "-tier", "quick", "-cfg", cfgString(bt.Cfg), "-hashes")
				var sb strings.Builder
				cnt := 0
				for _, l := range po.lines {
					if l.K == "h" {
						fmt.Fprintf(&sb, "%d:%s\n", l.I, l.Hash)
						cnt++
					}
				}
				if cnt == 0 {
					fmt.Printf("selftest %s/%s: process %d produced no hashes: %v %s\n", prop, bt.Name, k, po.err, tail(po.stderr, 500))
					ok = false
					break
				}
				if k == 0 {
					ref = sb.String()
				} else if sb.String() != ref {
					ok = false
					a, c := strings.Split(ref, "\n"), strings.Split(sb.String(), "\n")
					for j := range a {
						if j >= len(c) || a[j] != c[j] {
							fmt.Printf("selftest %s/%s: NONDETERMINISM at run %s (GOMAXPROCS=1) vs %s (GOMAXPROCS=%s)\n", prop, bt.Name, a[j], func() string {
								if j < len(c) {
									return c[j]
								}
								return "<missing>"
							}(), gmp)
							break
						}
					}
					break
				}
			}
			if ok {
				fmt.Printf("selftest %s/%s: %d runs x 5 fresh processes (GOMAXPROCS 1,4,16,16,7): identical trace hashes (%.0fs)\n", prop, bt.Name, n, time.Since(t0).Seconds())
			} else {
				bad++
			}
		}
	}
	if bad > 0 {
		return 2
	}
	return 0
}
