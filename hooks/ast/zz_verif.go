//go:build verif

package ast

// Read-only introspection for coverage probes and for the exact classification
// of known findings (DESIGN 2.6). Overlay-added by /verif; not part of sonic.

// SimState reports the representation of a node: raw (unparsed text), lazy
// (partially parsed container with a live parse stack), parsed children so far.
func SimState(n *Node) (raw, lazy bool, parsed int) {
	if n == nil {
		return false, false, 0
	}
	return n.isRaw(), n.isLazy(), int(n.l)
}
