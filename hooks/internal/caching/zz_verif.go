//go:build verif

package caching

import "unsafe"

// SimReset replaces the program map by an empty one of the given capacity
// (a power of two >= 2), so that rehash and probe wrap-around are reached with
// a handful of types instead of thousands. Overlay-added by /verif; not part of
// bytedance/sonic.
func (self *ProgramCache) SimReset(capacity int) {
	self.m.Lock()
	defer self.m.Unlock()
	self.p = unsafe.Pointer(&_ProgramMap{m: uint32(capacity - 1), b: make([]_ProgramEntry, capacity)})
}

// SimStats returns (entries, capacity) of the current map.
func (self *ProgramCache) SimStats() (int, int) {
	m := (*_ProgramMap)(self.p)
	return int(m.n), int(m.m) + 1
}
