//go:build verif && verifc10

package x86

import (
	"github.com/bytedance/sonic/internal/encoder/ir"
	"github.com/bytedance/sonic/internal/encoder/vars"
	"github.com/bytedance/sonic/internal/jit"
)

// C10 build flavour only: see jitdec/zz_verif_c10.go. Overlay-added by /verif.

var SimOpHook func(i, op, next int)

func simTramp(i int, op int, next int) {
	if h := SimOpHook; h != nil {
		h(i, op, next)
	}
}

func init() {
	vars.DebugSyncGC = true
	_F_println = jit.Func(simTramp)
}

func SimOpName(op int) string {
	if op >= 0 && op < len(ir.OpNames) {
		return ir.OpNames[op]
	}
	return "?"
}
