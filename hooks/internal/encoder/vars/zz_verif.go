//go:build verif

package vars

// SimResetCache: see caching.(*ProgramCache).SimReset. Overlay-added by /verif.
// Both encoder program caches (without / with the pointer-value flag) are reset.
func SimResetCache(capacity int) {
	programCache.SimReset(capacity)
	programCachePV.SimReset(capacity)
}

func SimCacheStats() (int, int) { return programCache.SimStats() }
