//go:build verif

package vars

// SimResetCache: see caching.(*ProgramCache).SimReset. Overlay-added by /verif.
func SimResetCache(capacity int) { programCache.SimReset(capacity) }

func SimCacheStats() (int, int) { return programCache.SimStats() }
