//go:build verif

package optdec

import "github.com/bytedance/sonic/internal/native/types"

// SimResetCache: see caching.(*ProgramCache).SimReset. Overlay-added by /verif.
func SimResetCache(capacity int) { programCache.SimReset(capacity) }

// SimParserGeometry makes every parser created from now on start with a private-copy
// buffer of capacity capN whose spare bytes hold junk (what an earlier, longer document
// leaves behind in a recycled buffer), and with room for nodeCap DOM nodes. capN < 0
// restores the shipped sizes. A knob of the simulator: the shipped constants (1 MiB) put
// the reallocation paths out of reach of small inputs.
func SimParserGeometry(capN int, junk []byte, nodeCap int) {
	if capN < 0 {
		capN, nodeCap, junk = int(defaultJsonPaddedCap), int(defaultNodesCap), nil
	}
	parsePool.New = func() interface{} {
		pad := make([]byte, capN)
		for i := range pad {
			if len(junk) > 0 {
				pad[i] = junk[i%len(junk)]
			}
		}
		return &Parser{
			options: 0,
			padded:  pad[:0],
			nodes:   make([]node, nodeCap, nodeCap),
			dbuf:    make([]byte, types.MaxDigitNums, types.MaxDigitNums),
		}
	}
}
