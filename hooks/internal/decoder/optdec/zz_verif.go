//go:build verif

package optdec

// SimResetCache: see caching.(*ProgramCache).SimReset. Overlay-added by /verif.
func SimResetCache(capacity int) { programCache.SimReset(capacity) }
