//go:build verif && verifc10

package jitdec

import "github.com/bytedance/sonic/internal/jit"

// C10 build flavour only. sonic's own per-opcode debug seam (debug_instr ->
// print_gc -> _F_println, normally enabled by SONIC_SYNC_GC and followed by a
// forced GC) is switched on and re-pointed at the simulator: every compiled
// decoder program then calls SimOpHook(i, op, nextOp) after every opcode.
// Overlay-added by /verif; not part of bytedance/sonic.

var SimOpHook func(i, op, next int)

func simTramp(i int, op int, next int) {
	if h := SimOpHook; h != nil {
		h(i, op, next)
	}
}

func simNop() {}

func init() {
	debugSyncGC = true
	_F_println = jit.Func(simTramp)
	_F_gc = jit.Func(simNop)
	_F_force_gc = jit.Func(simNop)
}

func SimOpName(op int) string {
	if op >= 0 && op < len(_OpNames) {
		return _OpNames[op]
	}
	return "?"
}
