#!/usr/bin/env python3
"""Regenerates /verif/MANIFEST.json from the table below (kept in one place so
that claimed checks and not_applicable never drift apart)."""
import json

BASELINE_OFF = "for m in $(cat /w/out/gomods.txt); do MF=$(cd /repo/$m && . /w/out/goenv.sh && gomodflag); (cd /repo/$m && go test $MF -json -vet=off -count=1 -timeout 25m ./...); done"

CLAIMED = {
 "C17": dict(
  technique="deterministic simulation: seeded simulated io.Reader/io.Writer (chunking, empty reads, data+EOF, injected reader errors, permanent and transient writer failures, buffer-size knobs, pool decisions) against a value-by-value reference model; tape shrinking + fresh-process replay",
  text="seeded search over read plans / fault positions / knobs; one run = one replayable tape; violations are minimised and replayed in a fresh process",
  note="sampled, not exhaustive; framing reference = encoding/json.Decoder (token level only), per-value reference = sonic's one-shot decoder; tails limited to framing-level truncation/garbage",
  ref="DESIGN.md 3 (C17)"),
 "C15": dict(
  technique="deterministic simulation by seeded history search against an executable reference model (ordered tree written from the documentation), three-way differential over representations (lazy / fully loaded / constructed), forced representation changes (Load, LoadAll, Raw, MarshalJSON, Interface, iteration) injected at arbitrary points of the history; tape shrinking + replay",
  text="seeded search over operation histories x documents x representation-change points; every step compared with the model; violations minimised to a few operations",
  note="no schedule or external fault exists in this property (stated caveat, DESIGN 3): what is simulated is the lazily-parsed representation state; model limited to what the doc comments state (DESIGN Appendix A)",
  ref="DESIGN.md 3 (C15), Appendix A"),
 "C16": dict(
  technique="deterministic simulation: seeded cooperative scheduler over real goroutines (statement-level yield points + RWMutex shim in ast/*.go, futex hand-off invisible to the race detector), race detector as in-run invariant, deadlock detection, sequential-clone reference; fault = malformed text behind a non-validating constructor, decided by linearizability of the recorded history (invoke/return stamped with the simulator's event sequence) against the single-threaded implementation itself (clone replays, DFS), and per-read explainability where no joint order exists",
  text="seeded search over interleavings of documented reads on one shared node starting raw; each schedule is one tape and replays exactly; race flavour reports missing synchronisation independently of the schedule chosen",
  note="code between two yield points is atomic for the scheduler; native/generated code not instrumented; sampled",
  ref="DESIGN.md 3 (C16)"),
 "C08": dict(
  technique="deterministic simulation: seeded cooperative scheduler over concurrent API calls on fresh types (first-use JIT compilation inside the run), callbacks that yield mid-encode/decode, seeded sync.Pool decisions, tiny program-cache capacities, injected callback panics and callback errors, bursts of failing decodes; oracles: solo re-execution, encoding/json, race detector, deadlock, traceback sentinel through generated frames",
  text="seeded search over interleavings x pool decisions x cache capacities; schedules replay exactly from the tape",
  note="generated and native code are atomic blocks except at call-outs; the real GC is not scheduled by the simulator (a crash it causes is a true violation but replays only through the deterministic traceback-sentinel oracle)",
  ref="DESIGN.md 3 (C08)"),
 "C10": dict(
  technique="deterministic simulation of Go-runtime events: sonic's per-opcode debug seam re-pointed at the simulator (a hook call after every opcode of every compiled program, both JITs) plus hooks in every user callback; the tape injects GC, stack growth/shrink (stack moves), tracebacks with sentinel check, Gosched, background GC cycles, allocation churn; GODEBUG=clobberfree=1, SetGCPercent(-1); a write-barrier round (value hidden behind a long list, collection on another goroutine, redecode into the same value while the mark phase is on and the stack already scanned, old values kept on the stack only); lazily compiled (one module per program) and Pretouch-ed (batch-loaded multi-function modules) programs; two toolchains",
  text="seeded search over (event kind x opcode boundary x program) schedules in child processes; every run is one tape",
  note="opcode boundaries and call-outs only, not arbitrary instructions; upstream's own exemption before `save` opcodes; the C10 flavour adds one call per opcode to the generated code; background-cycle timing is the runtime's",
  ref="DESIGN.md 3 (C10)"),
 "C05": dict(
  technique="deterministic simulation of memory placement (no schedule involved): every input is evaluated on a heap copy, with 1-48 seeded continuation bytes after it, and ending exactly at a PROT_NONE guard page; faults raised inside native routines are recovered (SetPanicOnFault) and reported as reads past the end of the input; three worker configurations (AVX2, SSE, optdec); for optdec the pooled private copy is one more placement: a fresh parser per call whose buffer capacity (around len(input)+padding, 0..1 MiB), leftovers in the spare bytes and node-buffer size come from the tape (hook optdec.SimParserGeometry)",
  text="seeded search over (input x entry point x placement x continuation); identical results and no fault required; two known findings in the pre-generated native routines are reported as KNOWN-FINDING",
  note="claim limited to memory placement/over-read (the property has no schedule); amd64 only; inputs are sampled from fragments, truncations, valid documents and SIMD-boundary lengths",
  ref="DESIGN.md 3 (C05), 6 (F10, F13)"),
 "C06": dict(
  technique="deterministic simulation of the caller's side of ownership: seeded call histories over seeded pools that poison spare capacity on Put, caller buffers whose capacity ends at a PROT_NONE guard page or canaries, the caller scribbling over its inputs after each call (decodes into interface{}, generated types and a struct with quoted/numbered/raw/pointer/map destinations, under option sets, through Unmarshal([]byte) and three CopyString entry points; JIT and optdec+VM configurations); encoder reference computed with the pools set aside (history-free) and compared with the call inside the history; snapshot comparison of every result after every step; buffer-size and pool-limit knobs",
  text="seeded search over histories x buffer geometry x pool decisions x knobs; one history = one tape; crashes at the guard page are attributed to the run and replayed from a pre-generated tape",
  note="single client (concurrent recycling is covered by C08's poisoning pools); only the stated direction (sonic must not touch caller-owned bytes) is checked",
  ref="DESIGN.md 3 (C06)"),
 "C09": dict(
  technique="deterministic simulation of process-global state through seeded call histories: program-cache capacity knob (rehash/wrap-around with a handful of types), compile-option knobs, seeded permutation of every Go map iteration in the compile and batch-load paths, seeded pool decisions, same-named distinct types; per-call option sets (4 encoder, 6 decoder configurations incl. CaseSensitive / DisallowUnknownFields with inputs that make them matter); oracle = every Marshal/Unmarshal of the history re-executed with emptied caches and pools (history-free execution) must give the same result; encoding/json only counts suspects",
  text="seeded search over histories x knobs; one history = one tape, minimised and replayed in a fresh process",
  note="single client (the concurrent aspect is C08); reference restricted to the value subset of DESIGN Appendix B; loader module list is never reset inside a process",
  ref="DESIGN.md 3 (C09)"),
}

NA = {
 "C01": "pure function of (bytes, type, config): no schedule, fault, clock or history to simulate",
 "C02": "accept/reject language is a pure function of the input bytes per API",
 "C03": "pure function of (value, type)",
 "C04": "pure function of (value, options)",
 "C07": "quantified over inputs only; nothing for a scheduler or fault injector to decide (its stream-progress clause is exercised by C17's progress oracle)",
 "C11": "differential between two configurations fixed at process start; pure",
 "C12": "differential between two encoder back ends fixed at process start; pure",
 "C13": "differential between two instruction-set variants fixed at process start; pure",
 "C14": "pure function of (document, path, options); the concurrency aspect of ConcurrentRead is C16",
 "C18": "pure configuration differential",
 "C19": "pure function of the literal / the number",
 "C20": "pure functions of the byte string (placement dependence of the same routines is C05's subject)",
}

PLANNED = {
 "C05": "check not built yet (planned: memory-placement simulation with guard pages, DESIGN.md 3)",
 "C06": "check not built yet (planned, DESIGN.md 3)",
 "C09": "check not built yet (planned, DESIGN.md 3)",
 "C10": "check not built yet (planned, DESIGN.md 3)",
 "C15": "check not built yet (planned, DESIGN.md 3)",
}

def main():
    checks = []
    for pid in sorted(CLAIMED):
        c = CLAIMED[pid]
        checks.append({
            "property_id": pid,
            "quick_cmd": "./run %s quick" % pid,
            "thorough_cmd": "./run %s thorough" % pid,
            "evidence_file": "evidence/%s.json" % pid,
            "replay_cmd_template": "./run replay {path}",
            "engine": "harness",
            "technique": c["technique"],
            "level_claimed": {"category": "exploration", "text": c["text"], "design_ref": c["ref"]},
            "level_note": c["note"],
        })
    na = [{"property_id": k, "reason": v} for k, v in sorted(NA.items())]
    na += [{"property_id": k, "reason": v} for k, v in sorted(PLANNED.items()) if k not in CLAIMED]
    served = sorted(CLAIMED)
    m = {
        "version": 1,
        "setup_cmd": "cd /verif && GOFLAGS=-mod=mod GOPROXY=off GOSUMDB=off GOWORK=off GOTOOLCHAIN=local sh -c 'mkdir -p bin && cd orch && go build -o ../bin/orch .'",
        "hooks": {
            "guard": "verif",
            "enable": "nothing is committed to /repo for the machinery: every check instruments the CURRENT working tree into a scratch directory and builds with `go build -overlay <scratch>/overlay.json -tags verif`; overlay-added files (/verif/simrt, /verif/hooks) carry //go:build verif; see DESIGN.md 2.1. The only commits in /repo are `fix:` repairs.",
            "baseline_off_cmd": BASELINE_OFF,
            "source_commits": [],
            "add_only": True,
        },
        "engines": [
            {"name": "orch", "path": "orch/", "serves_properties": served, "kind_free_text": "orchestrator: overlay instrumenter, worker pool, watchdog, known-findings matching, tape shrinker, replay, evidence"},
            {"name": "simrt", "path": "simrt/", "serves_properties": served, "kind_free_text": "simulator runtime injected into the sonic module by overlay: tape (one seed decides everything), cooperative futex scheduler, Mutex/RWMutex/Pool shims"},
            {"name": "harness", "path": "harness/", "serves_properties": served, "kind_free_text": "worker binary: per-property workloads, reference models and oracles"},
        ],
        "checks": checks,
        "not_applicable": na,
        "notes": "See DESIGN.md. Exit codes: 0 held, 1 + VIOLATION line, 2 = build/watchdog/harness trouble (never a VIOLATION). known_findings.txt lists repaired defects (fixed:) and recorded ones (known:).",
    }
    json.dump(m, open("/verif/MANIFEST.json", "w"), indent=1)
    print("MANIFEST.json: %d checks, %d not_applicable" % (len(checks), len(na)))

if __name__ == "__main__":
    main()
